#!/usr/bin/env python3
"""Apply a mutant to /repo, run checks against it, always revert.
   tools/try_mutant.py --patch P.diff C14 [C15 ...] [--tier quick] [--seed 1]
   tools/try_mutant.py --file include/x.h --old 'a' --new 'b' C14
"""
import subprocess, sys, os, argparse
ap = argparse.ArgumentParser()
ap.add_argument("--patch"); ap.add_argument("--file"); ap.add_argument("--old"); ap.add_argument("--new")
ap.add_argument("--tier", default="quick"); ap.add_argument("--seed", default="1"); ap.add_argument("--count", type=int, default=1)
ap.add_argument("ids", nargs="+")
a = ap.parse_args()
def sh(c, **k): return subprocess.run(c, shell=True, text=True, stdout=subprocess.PIPE, stderr=subprocess.STDOUT, **k)
if sh("git -C /repo diff --quiet").returncode != 0:
    print("ERROR /repo has uncommitted changes"); sys.exit(2)
import shutil, tempfile
evidence_backup = tempfile.mkdtemp(prefix='verif_evid_')
shutil.copytree('/verif/evidence', evidence_backup + '/e')
try:
    if a.patch:
        r = sh("git -C /repo apply %s" % os.path.abspath(a.patch))
        if r.returncode: print("patch failed:", r.stdout); sys.exit(2)
    else:
        p = os.path.join("/repo", a.file); s = open(p).read()
        n = s.count(a.old)
        if n < 1: print("ERROR old text not found"); sys.exit(2)
        open(p, "w").write(s.replace(a.old, a.new, a.count))
    print(sh("git -C /repo diff --stat").stdout.strip())
    for pid in a.ids:
        for seed in a.seed.split(","):
            r = sh("cd /verif && VERIF_SEED=%s timeout 3000 ./check %s --tier %s" % (seed, pid, a.tier))
            lines = [l for l in r.stdout.splitlines() if l.startswith(("VIOLATION", "OK ", "ERROR", "KNOWN", "  REPLAY"))]
            verdict = "DETECTED" if r.returncode == 1 else ("MISSED" if r.returncode == 0 else "ERROR rc=%d" % r.returncode)
            print("== %s seed=%s: %s" % (pid, seed, verdict))
            for l in lines[:4]: print("   ", l[:300])
            if r.returncode not in (0, 1): print(r.stdout[-1500:])
finally:
    sh("git -C /repo checkout -- .")
    # evidence files must describe runs on the unchanged tree only
    shutil.rmtree("/verif/evidence", ignore_errors=True); shutil.copytree(evidence_backup + "/e", "/verif/evidence"); shutil.rmtree(evidence_backup, ignore_errors=True)
    assert sh("git -C /repo diff --quiet").returncode == 0
