#!/usr/bin/env python3
"""Prints the prompt given to an independent sub-agent that writes a breaking change for one property.
   usage: tools/seed_prompt.py <ID> <worktree-name>     (worktree: /tmp/wt_<worktree-name>)
   The agent sees the property record and, so that it picks a different place, one line per change
   already collected for that property (place/kind only). Nothing else from /verif."""
import json, sys, glob, os
pid, wt = sys.argv[1], sys.argv[2]
kind = sys.argv[3] if len(sys.argv) > 3 else ""
prop = next(json.loads(l) for l in open('/verif/properties.jsonl') if json.loads(l)['id'] == pid)
used = []
for m in sorted(glob.glob('/verif/seeded/%s_*/meta.json' % pid)):
    j = json.load(open(m)); used.append("- %s: %s" % (", ".join(j.get("files_touched", [])), j.get("needs_to_manifest", "")))
print("""You are helping to test a verification suite for the C++ project SciCompMod/GMGPolar (an OpenMP geometric multigrid solver on polar/curvilinear grids). Your own private scratch git worktree of the project is at /tmp/wt_%(wt)s (already configured and built: /tmp/wt_%(wt)s/_build, Ninja, `cmake --build _build -j8`, tests run with `OMP_WAIT_POLICY=passive ctest --test-dir _build -j8 --timeout 900` - always set OMP_WAIT_POLICY=passive, the machine is shared and spin-waiting OpenMP tests time out otherwise; 16 ctest executables / 173 gtest cases, all passing now). Work ONLY inside /tmp/wt_%(wt)s. Never read or touch /repo, /verif or any other /tmp/wt_* directory. There is no network.

Here is one semantic property of the project that is supposed to hold (JSON record):

%(prop)s

TASK: write ONE small, realistic change to the project's source (src/ or include/; not tests/, not CMake) that BREAKS this property, while
 (a) the project still compiles without new warnings-as-errors,
 (b) the complete existing test suite still passes (all ctest executables), and
 (c) the breakage needs something SPECIFIC to manifest: a particular multi-step sequence of API calls, an unusual-but-legal input (grid shape, size, option combination, thread count, value range), a particular interleaving, or two cooperating edits that each look fine alone. It must NOT be something ordinary use with default options exposes at once, and it should look like a plausible refactoring/optimisation/bug a maintainer could commit by accident, not like sabotage (no magic constants, no "if (n == 37)").
Read the code the property is anchored in first, understand what the existing tests exercise (tests/), and choose a place they do not reach.
%(kind)s%(used)s
DELIVERABLES, all inside /tmp/wt_%(wt)s:
 1. patch.diff at the worktree root: `git diff -- src include > patch.diff` (must apply with `git apply` to a clean checkout; only src/ and include/).
 2. demo/demo.cpp + demo/build.sh: a small stand-alone program (link against _build/libGMGPolarLib.a _build/libInputFunctions.a _build/libPolarGrid.a as needed, `g++ -std=gnu++20 -O2 -fopenmp -I/tmp/wt_%(wt)s/include`; build.sh must produce the executable demo/demo) that demonstrates the violation of the property through public interfaces: it exits 0 and prints PASS on the ORIGINAL code and exits non-zero and prints FAIL with your change applied. The demo must be deterministic (if it depends on a thread interleaving, make it robust, e.g. by a ThreadSanitizer build or by repeating until it shows, and say so).
 3. SEEDED.md: what you changed, which sentence of the property it breaks, the exact trigger (everything that is needed for it to manifest), why the existing tests do not notice, and the commands you ran with their abridged output (build, ctest summary with the change, demo with and without the change).
Verify everything yourself: apply the change, rebuild (`cmake --build _build -j8`), run the full ctest with OMP_WAIT_POLICY=passive (must be 100%% passed), build and run the demo (FAIL); then `git checkout -- src include`, rebuild, rebuild the demo, run it (PASS). Leave the worktree with patch.diff present and the source tree CLEAN (change not applied) and _build rebuilt for the clean tree. Keep builds to `-j8`. In your final answer give a five-line summary: files touched, what breaks, trigger, ctest result with the change, demo results with/without.""" % dict(
    wt=wt, prop=json.dumps(prop, indent=1), kind=("If the code allows it, prefer a trigger of this kind: " + kind + "\n") if kind else "",
    used=("\nChanges of the following kinds/places have ALREADY been collected for this property; choose a DIFFERENT place and a different kind of trigger:\n" + "\n".join(used) + "\n") if used else ""))
