#!/usr/bin/env python3
"""Regenerates the two sensitivity tables of DESIGN.md section 8 from seeded/*/meta.json and tools/mutants/results.tsv."""
import json, os, glob, collections, re
rows = collections.OrderedDict()
for l in open('/verif/tools/mutants/results.tsv'):
    f = l.rstrip('\n').split('\t')
    if len(f) >= 3:
        rows.setdefault(f[0], collections.OrderedDict())[f[1]] = f[2]
M = {m['name']: m for m in json.load(open('/verif/tools/mutants/mutants.json'))}
out = ["| mutant | file | change | result per check (quick tier, seed 1) |", "|---|---|---|---|"]
for name, res in rows.items():
    m = M.get(name, {})
    ch = (m.get('old', '').strip().splitlines() or [''])[0][:50].replace('|', '\\|') + " -> " + (m.get('new', '').strip().splitlines() or ['(deleted)'])[0][:50].replace('|', '\\|')
    out.append("| %s | %s | `%s` | %s |" % (name, os.path.basename(m.get('file', '')), ch.replace('`', "'"), ", ".join("%s: %s" % (k, v) for k, v in res.items())))
hand = "\n".join(out)
out = ["| seeded change (seeded/<name>/) | breaks | needs to manifest | checks (quick tier, seed 1) |", "|---|---|---|---|"]
n = 0
for d in sorted(glob.glob('/verif/seeded/*/meta.json')):
    m = json.load(open(d)); n += 1
    cr = m.get('check_results', {})
    res = ", ".join("%s: %s" % (k, v['verdict']) for k, v in cr.items())
    note = (" **" + m['strengthening'] + "**") if 'strengthening' in m else ""
    if 'note' in m:
        note += " *" + m['note'] + "*"
    out.append("| %s | %s | %s | %s%s |" % (m['name'], m['property_broken'], m['needs_to_manifest'].replace('|', '\\|'), res, note))
seeded = "\n".join(out)
p = '/verif/DESIGN.md'
s = open(p).read()
s = re.sub(r"<!-- SEEDED_TABLE_BEGIN -->.*?<!-- SEEDED_TABLE_END -->", "<!-- SEEDED_TABLE_BEGIN -->\n" + seeded + "\n<!-- SEEDED_TABLE_END -->", s, flags=re.S)
s = re.sub(r"<!-- HAND_TABLE_BEGIN -->.*?<!-- HAND_TABLE_END -->", "<!-- HAND_TABLE_BEGIN -->\n" + hand + "\n<!-- HAND_TABLE_END -->", s, flags=re.S)
s = re.sub(r"<!-- SEEDED_COUNT -->\d+<!-- /SEEDED_COUNT -->", "<!-- SEEDED_COUNT -->%d<!-- /SEEDED_COUNT -->" % n, s)
open(p, 'w').write(s)
print(n, "seeded,", len(rows), "hand mutants")
