#!/usr/bin/env python3
"""Regenerates /verif/MANIFEST.json from harness/props.py (single source of truth)."""
import json, os, sys
VERIF = os.path.dirname(os.path.dirname(os.path.abspath(__file__)))
sys.path.insert(0, os.path.join(VERIF, "harness"))
from props import PROPS, NOT_APPLICABLE  # noqa

ids = [json.loads(l)["id"] for l in open(os.path.join(VERIF, "properties.jsonl"))]
checks = []
for pid in ids:
    if pid not in PROPS:
        continue
    c = PROPS[pid]
    entry = dict(
        property_id=pid,
        quick_cmd="./check %s --tier quick" % pid,
        thorough_cmd="./check %s --tier thorough" % pid,
        evidence_file="/verif/evidence/%s.json" % pid,
        replay_cmd_template="./check %s --replay {path}" % pid,
        engine=c.get("engine", "rapidcheck"),
        level_claimed=dict(category="exploration", text=c["level_text"], design_ref=c.get("design_ref", "DESIGN.md section 5, " + pid)),
        level_note=c["level_note"],
        technique=c["technique"],
    )
    checks.append(entry)
na = [dict(property_id=p, reason=NOT_APPLICABLE.get(p, "no check built yet")) for p in ids if p not in PROPS]
engines = [
    dict(name="rapidcheck", path="/verif/harness", serves_properties=[p for p in ids if p in PROPS],
         kind_free_text="property-based testing: rapidcheck generators with integrated shrinking, one harness binary per property, "
                        "replay files bypass the library"),
    dict(name="libFuzzer", path="/verif/fuzz", serves_properties=[p for p in ids if p in PROPS and any(PROPS[p].get(t, {}).get("fuzz") for t in ("quick", "thorough"))],
         kind_free_text="coverage-guided fuzzing (clang -fsanitize=fuzzer,address,undefined) with structure-aware decoding and the same semantic oracles"),
]
m = dict(
    version=1,
    setup_cmd="./check --setup",
    hooks=dict(guard="GMGPOLAR_VERIF", enable="all harness flavours compile /repo's sources with -DGMGPOLAR_VERIF (see harness/props.py FLAVOURS)",
               baseline_off_cmd="cmake --build /repo/_build -j16 && ctest --test-dir /repo/_build -j8 --timeout 900",
               source_commits=json.load(open(os.path.join(VERIF, "tools", "hook_commits.json"))), add_only=True),
    engines=engines,
    checks=checks,
    notes="Driver: ./check (python3, stdlib only). Every check rebuilds what it needs from /repo's working tree with ninja. "
          "Known findings: /verif/known_findings.txt; regression cases for them in /verif/findings/. See DESIGN.md.",
    not_applicable=na,
)
with open(os.path.join(VERIF, "MANIFEST.json"), "w") as f:
    json.dump(m, f, indent=1)
    f.write("\n")
print("MANIFEST.json: %d checks, %d not applicable" % (len(checks), len(na)))
