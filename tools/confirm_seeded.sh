#!/bin/bash
# Confirms an independently written seeded change in its scratch worktree:
#   with the patch: builds, existing tests pass, demo fails; without: demo passes.
# usage: tools/confirm_seeded.sh <worktree> <name>
set -u
WT=$1; NAME=$2
export OMP_WAIT_POLICY=passive
cd "$WT" || exit 2
[ -f patch.diff ] || { echo "no patch.diff"; exit 2; }
git checkout -q -- src include
git apply patch.diff || { echo "patch does not apply"; exit 2; }
cmake --build _build -j6 2>&1 | tail -1
T=$(ctest --test-dir _build -j8 --timeout 900 2>&1 | grep -E "tests passed|tests failed" | tail -1)
echo "WITH PATCH tests: $T"
(cd demo && bash build.sh > $WT/.demo_build.log 2>&1); DEMO=$(ls demo/demo 2>/dev/null || ls demo/*.out 2>/dev/null | head -1)
[ -x "$DEMO" ] || { echo "demo did not build"; tail -5 $WT/.demo_build.log; exit 2; }
(cd demo && timeout 900 ./$(basename $DEMO) > $WT/.demo_with.log 2>&1); RC1=$?
echo "WITH PATCH demo exit=$RC1 : $(tail -1 $WT/.demo_with.log)"
git checkout -q -- src include
cmake --build _build -j6 2>&1 | tail -1
(cd demo && bash build.sh > $WT/.demo_build.log 2>&1)
(cd demo && timeout 900 ./$(basename $DEMO) > $WT/.demo_without.log 2>&1); RC2=$?
echo "WITHOUT PATCH demo exit=$RC2 : $(tail -1 $WT/.demo_without.log)"
if echo "$T" | grep -q "100% tests passed" && [ $RC1 -ne 0 ] && [ $RC2 -eq 0 ]; then
  D=/verif/seeded/$NAME; mkdir -p $D/demo
  cp patch.diff $D/patch.diff; cp demo/demo.cpp demo/build.sh $D/demo/ 2>/dev/null; cp SEEDED.md $D/SEEDED.md 2>/dev/null
  tail -3 $WT/.demo_with.log > $D/demo_with_patch.txt; tail -3 $WT/.demo_without.log > $D/demo_without_patch.txt
  echo "CONFIRMED -> $D"
else
  echo "NOT CONFIRMED"
fi
