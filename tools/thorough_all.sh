#!/bin/bash
# all thorough commands against the frozen snapshot of /repo (vp run --with-repo), one after the other
export VERIF_REPO=$VP_RUN_REPO
./check --setup > setup.log 2>&1
for i in ${THOROUGH_IDS:-10 14 12 17 16 19 09 13 02 01 20 11 03 04 05 06 07 08 15 18}; do
  s=$(date +%s); ./check C$i --tier thorough > thorough_C$i.log 2>&1; echo "C$i rc=$? $(( $(date +%s)-s ))s $(tail -1 thorough_C$i.log | cut -c1-200)"; done
