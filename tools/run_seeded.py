#!/usr/bin/env python3
"""Applies a confirmed seeded change to /repo, runs the given checks (quick tier), always reverts.
   usage: tools/run_seeded.py <seeded-name> <ID> [<ID> ...] [--seed N]"""
import subprocess, sys, os, json, time
args = sys.argv[1:]; seed = "1"
if "--seed" in args:
    i = args.index("--seed"); seed = args[i + 1]; del args[i:i + 2]
name, ids = args[0], args[1:]
def sh(c): return subprocess.run(c, shell=True, text=True, stdout=subprocess.PIPE, stderr=subprocess.STDOUT)
assert sh("git -C /repo diff --quiet").returncode == 0, "/repo dirty"
patch = "/verif/seeded/%s/patch.diff" % name
res = {}
import shutil, tempfile
evidence_backup = tempfile.mkdtemp(prefix='verif_evid_')
shutil.copytree('/verif/evidence', evidence_backup + '/e')
try:
    r = sh("git -C /repo apply " + patch)
    assert r.returncode == 0, r.stdout
    for pid in ids:
        t0 = time.time()
        r = sh("cd /verif && VERIF_SEED=%s timeout 3000 ./check %s --tier quick" % (seed, pid))
        verdict = "detected" if r.returncode == 1 else ("missed" if r.returncode == 0 else "error%d" % r.returncode)
        first = next((l.strip() for l in r.stdout.splitlines() if "REPLAY-FAIL" in l or "Assertion" in l or "runtime error" in l or "ERROR: " in l), "")
        print("%s\t%s\tseed=%s\t%s\t%.0fs\t%s" % (name, pid, seed, verdict, time.time() - t0, first[:200]), flush=True)
        res[pid] = dict(verdict=verdict, seed=int(seed), first_failure=first[:300])
finally:
    sh("git -C /repo checkout -- .")
    # evidence files must describe runs on the unchanged tree only
    shutil.rmtree("/verif/evidence", ignore_errors=True); shutil.copytree(evidence_backup + "/e", "/verif/evidence"); shutil.rmtree(evidence_backup, ignore_errors=True)
assert sh("git -C /repo diff --quiet").returncode == 0
mp = "/verif/seeded/%s/meta.json" % name
meta = json.load(open(mp)) if os.path.exists(mp) else {}
meta.setdefault("check_results", {}).update(res)
json.dump(meta, open(mp, "w"), indent=1)
