#!/bin/bash
# Creates a scratch worktree of /repo's HEAD under /tmp with a configured and built _build (as /repo/_build).
# usage: tools/mk_worktree.sh <name>   -> /tmp/wt_<name>
set -e
WT=/tmp/wt_$1
[ -d "$WT" ] || git -C /repo worktree add --detach -f "$WT" HEAD > /dev/null 2>&1
rm -rf "$WT/_build"
cd "$WT"
cmake -G Ninja -B _build -DCMAKE_BUILD_TYPE=RelWithDebInfo -DCMAKE_CXX_FLAGS=-Wno-error -DGMGPOLAR_BUILD_TESTS=ON -DGMGPOLAR_USE_LIKWID=OFF -DGMGPOLAR_USE_MUMPS=OFF -DFETCHCONTENT_SOURCE_DIR_GOOGLETEST=/usr/src/googletest -DFETCHCONTENT_UPDATES_DISCONNECTED=ON > /dev/null
cmake --build _build -j${2:-16} 2>&1 | tail -1
echo "$WT ready"
