#!/bin/bash
# confirm a sub-agent's change in its worktree, store it, remove the worktree, run the given checks against it
# usage: tools/process_seeded.sh <worktree-suffix> <name> <property> "<what_breaks>" "<needs>" <ID> [<ID>...]
WT=/tmp/wt_$1; NAME=$2; PROP=$3; WHAT=$4; NEEDS=$5; shift 5
cd /verif
tools/confirm_seeded.sh $WT $NAME 2>&1 | grep -E "WITH|CONFIRMED|NOT|patch|demo" || exit 1
[ -f seeded/$NAME/patch.diff ] || { echo "not stored"; exit 1; }
tools/seeded_meta.py $NAME $PROP "$WHAT" "$NEEDS"
git -C /repo worktree remove --force $WT
python3 tools/run_seeded.py $NAME "$@"
