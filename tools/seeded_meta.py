#!/usr/bin/env python3
"""Writes seeded/<name>/meta.json after tools/confirm_seeded.sh confirmed the change.
   usage: tools/seeded_meta.py <name> <property> <what_breaks> <needs_to_manifest>"""
import json, sys, os, re
name, prop, what, needs = sys.argv[1:5]
d = "/verif/seeded/%s" % name
files = sorted(set(re.findall(r"^\+\+\+ b/(\S+)", open(d + "/patch.diff").read(), re.M)))
mp = d + "/meta.json"
meta = json.load(open(mp)) if os.path.exists(mp) else {}
meta.update(dict(name=name, property_broken=prop, what_breaks=what, needs_to_manifest=needs, files_touched=files,
    origin="written by an independent sub-agent that saw only the property record (and one line per change already collected for that property, place/kind only) and its own scratch worktree of /repo (nothing else from /verif)",
    confirmed_by_me="tools/confirm_seeded.sh in the scratch worktree: with the patch the project builds, ctest passes 16/16 (all gtest cases), demo prints FAIL (exit!=0); without the patch the demo prints PASS (exit 0)",
    checks_run="tools/run_seeded.py: git -C /repo apply patch.diff; ./check <ID> --tier quick (VERIF_SEED=1); git -C /repo checkout -- ."))
json.dump(meta, open(mp, "w"), indent=1)
print("wrote", mp)
