#!/usr/bin/env python3
"""Runs the hand-written sensitivity mutants (DESIGN.md section 8) against the quick tier and tabulates the result.
   usage: tools/run_mutants.py [name-substring ...]   -> appends to tools/mutants/results.tsv"""
import subprocess, sys, os, json, time, shutil, tempfile
M = json.load(open(os.path.join(os.path.dirname(__file__), "mutants", "mutants.json")))
sel = sys.argv[1:]
def sh(c): return subprocess.run(c, shell=True, text=True, stdout=subprocess.PIPE, stderr=subprocess.STDOUT)
assert sh("git -C /repo diff --quiet").returncode == 0, "/repo dirty"
out = open(os.path.join(os.path.dirname(__file__), "mutants", "results.tsv"), "a")
# evidence files must describe runs on the unchanged tree only
evidence_backup = tempfile.mkdtemp(prefix='verif_evid_')
shutil.copytree('/verif/evidence', evidence_backup + '/e')
try:
    for m in M:
        if sel and not any(x in m["name"] for x in sel):
            continue
        p = os.path.join("/repo", m["file"]); s = open(p).read()
        if s.count(m["old"]) < 1:
            print("SKIP (pattern not found):", m["name"]); continue
        try:
            open(p, "w").write(s.replace(m["old"], m["new"], m.get("count", 1)))
            for pid in m["ids"]:
                t0 = time.time()
                r = sh("cd /verif && timeout 3000 ./check %s --tier quick" % pid)
                verdict = "detected" if r.returncode == 1 else ("MISSED" if r.returncode == 0 else "error%d" % r.returncode)
                first = next((l.strip() for l in r.stdout.splitlines() if "REPLAY-FAIL" in l or "Assertion" in l or "runtime error" in l or "Sanitizer" in l), "")
                line = "%s\t%s\t%s\t%.0fs\t%s" % (m["name"], pid, verdict, time.time() - t0, first[:160])
                print(line, flush=True); out.write(line + "\n"); out.flush()
        finally:
            sh("git -C /repo checkout -- .")
finally:
    shutil.rmtree("/verif/evidence", ignore_errors=True); shutil.copytree(evidence_backup + "/e", "/verif/evidence"); shutil.rmtree(evidence_backup, ignore_errors=True)
assert sh("git -C /repo diff --quiet").returncode == 0
