#!/bin/bash
# seed sweep of all quick commands against the frozen snapshot of /repo
export VERIF_REPO=$VP_RUN_REPO
./check --setup > setup.log 2>&1
for sd in ${SWEEP_SEEDS:-2 3 4 5 6 7}; do for i in 01 02 03 04 05 06 07 08 09 10 11 12 13 14 15 16 17 18 19 20; do
  VERIF_SEED=$sd ./check C$i --tier quick > sweep_${sd}_C$i.log 2>&1; echo "seed=$sd C$i rc=$? $(tail -1 sweep_${sd}_C$i.log)"; done; done
