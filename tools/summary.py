#!/usr/bin/env python3
"""Prints a table of the current evidence files."""
import json, glob, os
print("| id | tier | seed | evaluations | distinct non-trivial | inconclusive | excluded (known findings) | wall s | violations |")
print("|---|---|---|---|---|---|---|---|---|")
for f in sorted(glob.glob('/verif/evidence/*.json')):
    e = json.load(open(f)); c = e['coverage']
    exc = {k: v for k, v in c.get('counters', {}).items() if k.startswith('excluded')}
    print("| %s | %s | %d | %d | %d | %d | %s | %.0f | %d |" % (e['property_id'], e['tier'], e['seed'], c['evaluations'], c['distinct_nontrivial'],
          c.get('inconclusive', 0), ", ".join("%s=%d" % kv for kv in exc.items()) or "-", e['wall_s'], e.get('violations', 0)))
