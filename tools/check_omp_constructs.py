#!/usr/bin/env python3
"""The C11 argument (schedule = function of shape and thread count) rests on the called code using only statically
scheduled omp-for loops and barriers. This script greps /repo's sources for constructs that would break it."""
import re, sys, os, subprocess
root = os.environ.get("VERIF_REPO", "/repo")
bad = []
for d, _, fs in os.walk(root):
    if "_build" in d or ".git" in d or "third-party" in d or "/tests" in d:
        continue
    for f in fs:
        if not f.endswith((".cpp", ".h", ".inl")):
            continue
        p = os.path.join(d, f)
        if "task_parallelization" in f or "Mumps" in f or "/DirectSolverGive/" in p or "/DirectSolverTake/" in p:
            continue  # compiled but never called (task variants), or compiled out (MUMPS)
        for i, line in enumerate(open(p, errors="replace"), 1):
            if re.search(r"#\s*pragma\s+omp", line) and re.search(r"schedule\s*\(\s*(dynamic|guided|runtime|auto)|\btask\b|taskloop|atomic|critical|\bordered\b|sections", line):
                bad.append("%s:%d: %s" % (p, i, line.strip()))
            if re.search(r"omp_(set|unset|test)_lock|omp_init_lock", line):
                bad.append("%s:%d: %s" % (p, i, line.strip()))
if bad:
    print("DEGRADED: constructs outside the static-schedule/barrier model:")
    print("\n".join(bad))
    sys.exit(1)
print("ok: only statically scheduled omp-for loops, reductions and barriers in the called code")
