// LIBS: none
// libFuzzer target for C15: bytes -> (class, command history) -> the same model-based oracle as the rapidcheck harness.
#include <fuzzer/FuzzedDataProvider.h>
#include "engine.h"
#include "objects_case.h"
#include "fuzz_common.h"

extern "C" int LLVMFuzzerTestOneInput(const uint8_t* data, size_t size)
{
    if (size < 5)
        return 0;
    KV c;
    c.putI("kind", data[0] % 7);
    std::vector<int> cmds;
    for (size_t i = 1; i + 3 < size && cmds.size() < 4 * 40; i += 4) {
        cmds.push_back(data[i] % OP_COUNT);
        cmds.push_back(data[i + 1] % 4);
        cmds.push_back(data[i + 2] % 4);
        cmds.push_back(data[i + 3] * 4);
    }
    c.putVI("cmds", cmds);
    fuzzJudge(c, runObjectsCase(c));
    return 0;
}
