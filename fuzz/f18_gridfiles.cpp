// libFuzzer target for C18 (file part): the fuzzer's bytes are the contents of the radii file and of the angles file
// (split at the first 0xFF byte). Oracle: PolarGrid(file_r, file_theta) either throws a std::exception or yields a grid
// that passes the validity predicate and whose queries are memory safe (ASan/UBSan/assert).
#include <fstream>
#include <unistd.h>
#include "engine.h"
#include "fuzz_common.h"
#include "PolarGrid/polargrid.h"

extern "C" int LLVMFuzzerTestOneInput(const uint8_t* data, size_t size)
{
    static const std::string base = std::string("/tmp/verif_f18_") + std::to_string((long)getpid());
    const std::string fr = base + "_r.txt", ft = base + "_t.txt";
    size_t cut = 0;
    while (cut < size && data[cut] != 0xFF)
        cut++;
    {
        std::ofstream a(fr, std::ios::binary | std::ios::trunc), b(ft, std::ios::binary | std::ios::trunc);
        a.write((const char*)data, (std::streamsize)cut);
        if (cut + 1 < size)
            b.write((const char*)data + cut + 1, (std::streamsize)(size - cut - 1));
    }
    Outcome o;
    KV c;
    c.putS("radii_file_bytes", std::string((const char*)data, cut));
    try {
        PolarGrid g(fr, ft);
        const auto& rad = g.radii();
        const auto& ang = g.angles();
        if (rad.size() < 2 || ang.size() < 3)
            o.fail("loaded_invalid", "accepted a grid with fewer than two radii or two angular divisions");
        for (size_t i = 1; o.ok && i < rad.size(); i++)
            if (!(rad[i] > rad[i - 1]) || !(rad[0] > 0))
                o.fail("loaded_invalid", "accepted radii that are not positive and strictly increasing");
        for (size_t j = 1; o.ok && j < ang.size(); j++)
            if (!(ang[j] > ang[j - 1]))
                o.fail("loaded_invalid", "accepted angles that are not strictly increasing");
        if (o.ok) {
            // touch every query once (sanitizers + asserts are the oracle)
            long acc = 0;
            for (int i = 0; i < g.nr(); i++)
                for (int j = 0; j < g.ntheta(); j++) {
                    int k = g.index(i, j), a, b;
                    g.multiIndex(k, a, b);
                    if (a != i || b != j)
                        o.fail("inverse", "multiIndex(index(i,j)) != (i,j) on a loaded grid");
                    acc += k;
                }
            (void)acc;
            if (g.nr() % 2 == 1 && g.nr() >= 3 && g.ntheta() % 2 == 0 && g.ntheta() >= 4) {
                try {
                    PolarGrid cg = coarseningGrid(g);
                    (void)cg;
                }
                catch (const std::exception&) {
                }
            }
        }
    }
    catch (const std::exception&) {
    }
    fuzzJudge(c, o);
    return 0;
}
