// libFuzzer target for C17: bytes -> (radii, angles with antipodal partners, split, probe seed) -> the same oracle
// as the rapidcheck harness (bijection, fast vs reference index functions, wrap arithmetic, neighbours, spacings, split).
#include <fuzzer/FuzzedDataProvider.h>
#include "engine.h"
#include "gridindex_case.h"
#include "fuzz_common.h"

extern "C" int LLVMFuzzerTestOneInput(const uint8_t* data, size_t size)
{
    FuzzedDataProvider fdp(data, size);
    const int nr = fdp.ConsumeIntegralInRange<int>(2, 24);
    const int m  = fdp.ConsumeIntegralInRange<int>(1, 12); // half the number of angular divisions
    const double Rmax = 0.5 + 1.5 * fdp.ConsumeProbability<double>();
    const double R0   = Rmax * std::pow(10.0, -8.0 * fdp.ConsumeProbability<double>() - 0.3);
    std::vector<double> radii(nr), angles(2 * m + 1);
    double s = 0;
    std::vector<double> h(nr - 1);
    for (auto& x : h) {
        x = 0.05 + fdp.ConsumeProbability<double>();
        s += x;
    }
    double acc = 0;
    radii[0]   = R0;
    for (int i = 1; i < nr; i++) {
        acc += h[i - 1];
        radii[i] = R0 + (Rmax - R0) * acc / s;
        if (!(radii[i] > radii[i - 1]))
            radii[i] = std::nextafter(radii[i - 1], 1e300);
    }
    std::vector<double> w(m);
    double sw = 0;
    for (auto& x : w) {
        x = 0.05 + fdp.ConsumeProbability<double>();
        sw += x;
    }
    double a = 0;
    for (int j = 0; j < m; j++) {
        angles[j]     = M_PI * a / sw;
        angles[m + j] = angles[j] + M_PI;
        a += w[j];
    }
    angles[2 * m] = 2 * M_PI;
    KV c;
    c.putVD("radii", radii);
    c.putVD("angles", angles);
    const int mode = fdp.ConsumeIntegralInRange<int>(0, 2);
    c.putI("split_mode", mode == 0 ? 0 : 1);
    double split = 0;
    if (mode == 1)
        split = radii[fdp.ConsumeIntegralInRange<int>(0, nr - 1)];
    else if (mode == 2)
        split = R0 * 0.5 + (Rmax * 1.5 - R0 * 0.5) * fdp.ConsumeProbability<double>();
    c.putD("split", split);
    c.putU("probe_seed", fdp.ConsumeIntegral<uint32_t>());
    // constructor: vectors, the parametric constructor (refined / anisotropic grids) or files
    const int ctor = fdp.ConsumeIntegralInRange<int>(0, 3) % 3;
    c.putI("ctor", ctor);
    if (ctor == 1) {
        const int nr_exp = fdp.ConsumeIntegralInRange<int>(2, 5);
        c.putD("p_R0", R0);
        c.putD("p_Rmax", Rmax);
        c.putI("p_nr_exp", nr_exp);
        c.putI("p_ntheta_exp", fdp.ConsumeIntegralInRange<int>(1, 6) == 1 ? -1 : fdp.ConsumeIntegralInRange<int>(2, 6));
        c.putI("p_aniso", fdp.ConsumeIntegralInRange<int>(0, std::min(nr_exp - 1, 3)));
        c.putI("p_div", fdp.ConsumeIntegralInRange<int>(0, 2));
        c.putD("p_refinement", R0 + (Rmax - R0) * (0.3 + 0.6 * fdp.ConsumeProbability<double>()));
    }
    fuzzJudge(c, runGridIndexCase(c));
    return 0;
}
