// LIBS: none
// libFuzzer target for C14: bytes -> (n, cyclic, entries) -> same oracle as the rapidcheck harness.
// The decoder builds SPD matrices by construction (dominant or C^T C) so the fuzzer explores
// shapes/sign patterns/scales rather than dying in the SPD filter.
#include <fuzzer/FuzzedDataProvider.h>
#include "engine.h"
#include "tridiag_case.h"
#include "fuzz_common.h"

extern "C" int LLVMFuzzerTestOneInput(const uint8_t* data, size_t size)
{
    FuzzedDataProvider fdp(data, size);
    int n             = fdp.ConsumeIntegralInRange<int>(2, 40);
    const bool cyclic = fdp.ConsumeBool();
    const int k       = fdp.ConsumeIntegralInRange<int>(0, 1);
    const bool scaled = fdp.ConsumeBool();
    auto U            = [&](double a, double b) { return a + (b - a) * fdp.ConsumeProbability<double>(); };
    std::vector<double> mainD(n), sub(n - 1);
    double corner = 0;
    std::string cls;
    if (k == 0) {
        cls = "dom";
        for (int i = 0; i + 1 < n; i++) {
            int z  = fdp.ConsumeIntegralInRange<int>(0, 5);
            sub[i] = z == 0 ? 0.0 : (z % 2 ? 1 : -1) * U(0.01, 3.0);
        }
        if (cyclic) {
            int z  = fdp.ConsumeIntegralInRange<int>(0, 4);
            corner = z == 0 ? 0.0 : (z % 2 ? 1 : -1) * U(0.01, 3.0);
        }
        for (int i = 0; i < n; i++) {
            double s = 0;
            if (i > 0)
                s += std::fabs(sub[i - 1]);
            if (i + 1 < n)
                s += std::fabs(sub[i]);
            if (cyclic && (i == 0 || i == n - 1))
                s += std::fabs(corner);
            mainD[i] = s + U(0.01, 2.0);
        }
    }
    else {
        cls = "ctc";
        std::vector<double> p(n), q(n);
        for (int i = 0; i < n; i++) {
            q[i] = U(-2.0, 2.0);
            p[i] = (fdp.ConsumeBool() ? 1 : -1) * (std::fabs(q[i]) * U(1.05, 2.0) + U(0.01, 1.0));
        }
        if (!cyclic)
            q[n - 1] = 0.0;
        for (int j = 0; j < n; j++)
            mainD[j] = p[j] * p[j] + q[(j + n - 1) % n] * q[(j + n - 1) % n];
        if (!cyclic)
            mainD[0] = p[0] * p[0];
        for (int j = 0; j + 1 < n; j++)
            sub[j] = p[j] * q[j];
        if (cyclic)
            corner = p[n - 1] * q[n - 1];
    }
    if (scaled) {
        cls += "scaled";
        std::vector<double> s(n);
        for (int i = 0; i < n; i++)
            s[i] = std::pow(10.0, U(-2.5, 2.5));
        for (int i = 0; i < n; i++)
            mainD[i] *= s[i] * s[i];
        for (int i = 0; i + 1 < n; i++)
            sub[i] *= s[i] * s[i + 1];
        corner *= s[0] * s[n - 1];
    }
    KV c;
    c.putI("n", n);
    c.putI("cyclic", cyclic);
    c.putS("cls", cls);
    c.putVD("main", mainD);
    c.putVD("sub", sub);
    c.putD("corner", corner);
    c.putI("nrhs", fdp.ConsumeIntegralInRange<int>(1, 4));
    c.putI("rhs_kind", fdp.ConsumeIntegralInRange<int>(0, 5));
    c.putI("relocate", fdp.ConsumeIntegralInRange<int>(0, 4));
    c.putI("restate", fdp.ConsumeIntegralInRange<int>(0, 1));
    c.putU("rhs_seed", fdp.ConsumeIntegral<uint32_t>());
    fuzzJudge(c, runTridiagCase(c));
    return 0;
}
