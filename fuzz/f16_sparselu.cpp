// LIBS: none
// libFuzzer target for C16: bytes -> small sparse matrix that admits LU without pivoting (row/column dominant by
// construction), arbitrary storage order, explicit zeros, row scalings -> the same oracle as the rapidcheck harness.
#include <fuzzer/FuzzedDataProvider.h>
#include "engine.h"
#include "sparselu_case.h"
#include "fuzz_common.h"

extern "C" int LLVMFuzzerTestOneInput(const uint8_t* data, size_t size)
{
    FuzzedDataProvider fdp(data, size);
    const int n        = fdp.ConsumeIntegralInRange<int>(1, 10);
    const bool coldom  = fdp.ConsumeBool();
    const int scaleExp = fdp.ConsumeIntegralInRange<int>(0, 12);
    std::vector<std::vector<double>> A(n, std::vector<double>(n, 0.0));
    std::vector<std::vector<char>> mask(n, std::vector<char>(n, 0));
    for (int i = 0; i < n; i++)
        for (int j = 0; j < n; j++) {
            const int b = fdp.ConsumeIntegralInRange<int>(0, 7);
            if (i == j || b >= 5) {
                mask[i][j] = 1;
                if (i != j)
                    A[i][j] = b == 7 ? 0.0 : (fdp.ConsumeBool() ? 1 : -1) * (0.01 + 2.0 * fdp.ConsumeProbability<double>()); // b==7: stored zero
            }
        }
    for (int i = 0; i < n; i++) {
        double s = 0;
        for (int j = 0; j < n; j++)
            if (j != i)
                s += coldom ? std::fabs(A[j][i]) : std::fabs(A[i][j]);
        A[i][i] = (fdp.ConsumeBool() ? 1 : -1) * (s + 0.05 + 2.0 * fdp.ConsumeProbability<double>());
    }
    for (int i = 0; i < n; i++) {
        const double sc = std::pow(10.0, scaleExp * (2.0 * fdp.ConsumeProbability<double>() - 1.0));
        for (int j = 0; j < n; j++)
            A[i][j] *= sc;
    }
    std::vector<int> rows, cols;
    std::vector<double> vals;
    for (int i = 0; i < n; i++) {
        std::vector<int> cs;
        for (int j = 0; j < n; j++)
            if (mask[i][j])
                cs.push_back(j);
        for (int k = (int)cs.size() - 1; k > 0; k--)
            std::swap(cs[k], cs[fdp.ConsumeIntegralInRange<int>(0, k)]);
        for (int j : cs) {
            rows.push_back(i);
            cols.push_back(j);
            vals.push_back(A[i][j]);
        }
    }
    KV c;
    c.putI("n", n);
    c.putS("cls", coldom ? "fuzz_coldom" : "fuzz_rowdom");
    c.putI("ctor", fdp.ConsumeIntegralInRange<int>(0, 2));
    c.putI("child", 0);
    c.putVI("rows", rows);
    c.putVI("cols", cols);
    c.putVD("vals", vals);
    c.putI("nrhs", fdp.ConsumeIntegralInRange<int>(1, 3));
    c.putI("via", fdp.ConsumeIntegralInRange<int>(0, 3));
    c.putI("via_dn", fdp.ConsumeIntegralInRange<int>(-1, 2));
    c.putI("rhs_kind", fdp.ConsumeIntegralInRange<int>(0, 3));
    c.putU("rhs_seed", fdp.ConsumeIntegral<uint16_t>());
    fuzzJudge(c, runSparseLUCase(c));
    return 0;
}
