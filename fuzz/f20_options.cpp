// libFuzzer target for C20 (API part): bytes -> option record over the full setter cross product (including invalid enum
// integers, disabled tolerances, zero smoothing, level caps, cache flags, anisotropy with any refinement radius) ->
// the same two-memory-pattern oracle as the rapidcheck harness, under ASan/UBSan/assert.
#include <fuzzer/FuzzedDataProvider.h>
#include "options_case.h"
#include "fuzz_common.h"

extern "C" int LLVMFuzzerTestOneInput(const uint8_t* data, size_t size)
{
    FuzzedDataProvider f(data, size);
    SolverCfg s;
    auto R = [&](int a, int b) { return f.ConsumeIntegralInRange<int>(a, b); };
    s.geometry = R(0, 3);
    s.problem  = s.geometry == 3 ? R(2, 3) : R(0, 3);
    s.alpha    = (s.geometry == 3 || s.problem == 3) ? 3 : R(0, 3);
    s.beta     = (s.geometry == 3 || s.problem == 3) ? 1 : R(0, 1);
    s.Rmax     = 1.3;
    if (s.geometry == 1) {
        s.kappa_eps = 0.3;
        s.delta_e   = 0.2;
    }
    if (s.geometry == 2) {
        s.kappa_eps = 0.3;
        s.delta_e   = 1.4;
    }
    static const double r0s[4] = {1e-8, 1e-5, 1e-3, 0.1};
    s.R0         = s.Rmax * r0s[R(0, 3)];
    static const double aj[6] = {0.66, 0.5, 0.0, -1.0, 0.01, 5.0};
    s.alpha_jump = aj[R(0, 5)] * s.Rmax;
    s.nr_exp     = R(1, 4);
    s.ntheta_exp = R(-1, 4);
    s.div        = R(0, 1);
    s.aniso      = R(-1, 3);
    s.dirbc      = R(0, 1);
    s.fmg        = R(0, 1);
    s.fmg_its    = R(0, 3);
    s.fmg_cycle  = R(-1, 3);
    s.extrapolation = R(-1, 4);
    s.max_levels = R(-1, 6);
    s.pre        = R(0, 3);
    s.post       = R(0, 3);
    s.cycle      = R(-1, 3);
    s.max_its    = R(0, 1) ? R(0, 4) : 60;
    s.norm       = R(-1, 3);
    static const double tol[4] = {-1.0, 1e-4, 1e-8, 1e-12};
    s.abs_tol    = tol[R(0, 3)];
    s.rel_tol    = tol[R(0, 3)];
    s.threads    = R(1, 3);
    static const double red[4] = {1.0, 0.5, 0.3, 0.01};
    s.reduction  = red[R(0, 3)];
    s.strategy   = R(-1, 2);
    s.cache_coef = R(0, 1);
    s.cache_geom = R(0, 1);
    KV c;
    c.putS("part", "api");
    s.put(c);
    c.putI("grid_file", R(0, 6) == 0 ? R(1, 5) : 0);
    c.putI("verbose2", R(0, 2));
    c.putI("paraview2", R(0, 3) == 0);
    c.putI("write_grid", R(0, 4) == 0);
    c.putI("poison2", R(0, 2) == 0 ? R(1, 4) : 0);
    fuzzJudge(c, runApiCase(c));
    return 0;
}
