// FLAVOURS: rel asan
// C06: smoothing is an exact zebra line relaxation of the same operator.
#include "smoother_case.h"
int main(int argc, char** argv)
{
    return harnessMain(argc, argv, "C06 smoother", [] { return genSmootherCase(false); },
                       [](const KV& c) { return runSmootherCase(c, false); });
}
