// Full solver configuration through the public API (test-case selection through setParameters, the rest
// through the setters), shared by C01, C02, C09, C10, C13, C20.
#pragma once
#include "engine.h"
#include <fcntl.h>
#include <unistd.h>
#include <iostream>
#include <algorithm>
#include <cmath>
#include "access.h"

// Discards everything written to stdout while it lives (the solver prints diagnostics for verbose > 0).
struct StdoutSilencer {
    int saved = -1;
    explicit StdoutSilencer(bool on)
    {
        if (!on)
            return;
        fflush(stdout);
        std::cout.flush();
        saved   = dup(1);
        int nul = open("/dev/null", O_WRONLY);
        if (nul >= 0) {
            dup2(nul, 1);
            close(nul);
        }
    }
    ~StdoutSilencer()
    {
        if (saved >= 0) {
            std::cout.flush();
            fflush(stdout);
            dup2(saved, 1);
            close(saved);
        }
    }
};

struct SolverCfg {
    int geometry = 0, problem = 0, alpha = 1, beta = 0;
    double kappa_eps = 0, delta_e = 0, alpha_jump = 0.66 * 1.3, R0 = 1e-5, Rmax = 1.3;
    int nr_exp = 4, ntheta_exp = -1, aniso = 0, div = 0;
    int dirbc = 0;
    int fmg = 0, fmg_its = 2, fmg_cycle = 0, extrapolation = 0, max_levels = -1, pre = 1, post = 1, cycle = 0;
    int max_its = 150, norm = 0;
    double abs_tol = 1e-8, rel_tol = 1e-8; // negative = disabled
    int threads = 1;
    double reduction = 1.0;
    int strategy = 0; // 0 take, 1 give
    int cache_coef = 1, cache_geom = 1;
    int verbose   = 0; // diagnostic output level (the harness discards stdout)
    int grid_kind = 0; // 0: the parametric grid; 1..5: a grid loaded from files (see gridFiles())
    int via_cli = 0; // 1: every option reaches the object through setParameters(argc, argv), as src/main.cpp does

    static const std::vector<std::string>& intKeys()
    {
        static const std::vector<std::string> k = {"geometry", "problem", "alpha", "beta", "nr_exp", "ntheta_exp", "aniso", "div",
                                                    "dirbc", "fmg", "fmg_its", "fmg_cycle", "extrapolation", "max_levels", "pre",
                                                    "post", "cycle", "max_its", "norm", "threads", "strategy", "cache_coef",
                                                    "cache_geom", "via_cli", "grid_kind", "verbose"};
        return k;
    }
    int* iptr(const std::string& k)
    {
        if (k == "geometry") return &geometry;
        if (k == "problem") return &problem;
        if (k == "alpha") return &alpha;
        if (k == "beta") return &beta;
        if (k == "nr_exp") return &nr_exp;
        if (k == "ntheta_exp") return &ntheta_exp;
        if (k == "aniso") return &aniso;
        if (k == "div") return &div;
        if (k == "dirbc") return &dirbc;
        if (k == "fmg") return &fmg;
        if (k == "fmg_its") return &fmg_its;
        if (k == "fmg_cycle") return &fmg_cycle;
        if (k == "extrapolation") return &extrapolation;
        if (k == "max_levels") return &max_levels;
        if (k == "pre") return &pre;
        if (k == "post") return &post;
        if (k == "cycle") return &cycle;
        if (k == "max_its") return &max_its;
        if (k == "norm") return &norm;
        if (k == "threads") return &threads;
        if (k == "strategy") return &strategy;
        if (k == "cache_coef") return &cache_coef;
        if (k == "cache_geom") return &cache_geom;
        if (k == "via_cli") return &via_cli;
        if (k == "grid_kind") return &grid_kind;
        if (k == "verbose") return &verbose;
        return nullptr;
    }
    static const std::vector<std::string>& dblKeys()
    {
        static const std::vector<std::string> k = {"kappa_eps", "delta_e", "alpha_jump", "R0", "Rmax", "abs_tol", "rel_tol", "reduction"};
        return k;
    }
    double* dptr(const std::string& k)
    {
        if (k == "kappa_eps") return &kappa_eps;
        if (k == "delta_e") return &delta_e;
        if (k == "alpha_jump") return &alpha_jump;
        if (k == "R0") return &R0;
        if (k == "Rmax") return &Rmax;
        if (k == "abs_tol") return &abs_tol;
        if (k == "rel_tol") return &rel_tol;
        if (k == "reduction") return &reduction;
        return nullptr;
    }
    void put(KV& c, const std::string& prefix = "") const
    {
        SolverCfg& self = const_cast<SolverCfg&>(*this);
        for (auto& k : intKeys())
            c.putI(prefix + k, *self.iptr(k));
        for (auto& k : dblKeys())
            c.putD(prefix + k, *self.dptr(k));
    }
    static SolverCfg get(const KV& c, const std::string& prefix = "")
    {
        SolverCfg s;
        for (auto& k : intKeys())
            if (c.has(prefix + k))
                *s.iptr(k) = (int)c.getI(prefix + k);
        for (auto& k : dblKeys())
            if (c.has(prefix + k))
                *s.dptr(k) = c.getD(prefix + k);
        return s;
    }
    std::string sig() const
    {
        KV c;
        put(c);
        char b[32];
        snprintf(b, sizeof b, "%016llx", (unsigned long long)fnv1a(c.text()));
        return b;
    }
    // test-case selection (geometry/problem/profiles depend on Rmax and the shape parameters at selection time)
    void select(GMGPolar& s) const
    {
        std::vector<std::string> a = {"gmgpolar", "--verbose", "0", "--geometry", std::to_string(geometry), "--problem",
                                      std::to_string(problem), "--alpha_coeff", std::to_string(alpha), "--beta_coeff",
                                      std::to_string(beta), "--kappa_eps", KVnum(kappa_eps), "--delta_e", KVnum(delta_e),
                                      "--alpha_jump", KVnum(alpha_jump), "--Rmax", KVnum(Rmax), "--R0", KVnum(r0Option()),
                                      // as the command line does: setParameters() also makes this the active OpenMP thread
                                      // count, so setup() (level caches, right-hand side, matrix assembly) runs with it
                                      "--maxOpenMPThreads", std::to_string(std::max(threads, 1))};
        std::vector<char*> argv;
        for (auto& x : a)
            argv.push_back(const_cast<char*>(x.c_str()));
        s.setParameters((int)argv.size(), argv.data());
    }
    static std::string KVnum(double v)
    {
        char b[64];
        snprintf(b, sizeof b, "%.17g", v);
        return b;
    }
    // The R0 option describes the grid the solver generates itself. When the grid is loaded from files a user has no reason
    // to repeat it: for the odd file-grid kinds the option is left at its default although the loaded grid starts elsewhere
    // (nothing but the grid generator may depend on it).
    double r0Option() const
    {
        return (grid_kind == 6 || (grid_kind > 0 && grid_kind % 2 == 1)) ? 1e-5 : R0;
    }
    void applyOptions(GMGPolar& s) const
    {
        s.verbose(verbose);
        s.paraview(false);
        s.R0(r0Option());
        s.Rmax(Rmax);
        s.nr_exp(nr_exp);
        s.ntheta_exp(ntheta_exp);
        s.anisotropic_factor(aniso);
        s.divideBy2(div);
        s.write_grid_file(false);
        s.load_grid_file(grid_kind > 0);
        if (grid_kind > 0) {
            auto f = gridFiles();
            s.file_grid_radii(f.first);
            s.file_grid_angles(f.second);
        }
        s.DirBC_Interior(dirbc != 0);
        s.FMG(fmg != 0);
        s.FMG_iterations(fmg_its);
        s.FMG_cycle(static_cast<MultigridCycleType>(fmg_cycle));
        s.extrapolation(static_cast<ExtrapolationType>(extrapolation));
        s.maxLevels(max_levels);
        s.preSmoothingSteps(pre);
        s.postSmoothingSteps(post);
        s.multigridCycle(static_cast<MultigridCycleType>(cycle));
        s.maxIterations(max_its);
        s.residualNormType(static_cast<ResidualNormType>(norm));
        s.absoluteTolerance(abs_tol);
        s.relativeTolerance(rel_tol);
        s.maxOpenMPThreads(threads);
        s.threadReductionFactor(reduction);
        s.stencilDistributionMethod(static_cast<StencilDistributionMethod>(strategy));
        s.cacheDensityProfileCoefficients(cache_coef != 0);
        s.cacheDomainGeometry(cache_geom != 0);
    }
    // only the setters of options whose value differs from `prev` are called - as user code that changes a few options
    // between two solves does (re-applying every option would mask state that setup()/solve() corrupt in the object)
    void applyChanged(GMGPolar& s, const SolverCfg& prev) const
    {
        if (grid_kind > 0)
            (void)gridFiles(); // the two files hold this configuration's grid before any setup()
        if (grid_kind != prev.grid_kind || (grid_kind > 0 && (R0 != prev.R0 || Rmax != prev.Rmax)) ||
            (grid_kind == 6 && (nr_exp != prev.nr_exp || ntheta_exp != prev.ntheta_exp || aniso != prev.aniso || div != prev.div ||
                                alpha_jump != prev.alpha_jump))) {
            s.load_grid_file(grid_kind > 0);
            if (grid_kind > 0) {
                auto f = gridFiles();
                s.file_grid_radii(f.first);
                s.file_grid_angles(f.second);
            }
        }
        if (verbose != prev.verbose) s.verbose(verbose);
        if (r0Option() != prev.r0Option()) s.R0(r0Option());
        if (Rmax != prev.Rmax) s.Rmax(Rmax);
        if (nr_exp != prev.nr_exp) s.nr_exp(nr_exp);
        if (ntheta_exp != prev.ntheta_exp) s.ntheta_exp(ntheta_exp);
        if (aniso != prev.aniso) s.anisotropic_factor(aniso);
        if (div != prev.div) s.divideBy2(div);
        if (dirbc != prev.dirbc) s.DirBC_Interior(dirbc != 0);
        if (fmg != prev.fmg) s.FMG(fmg != 0);
        if (fmg_its != prev.fmg_its) s.FMG_iterations(fmg_its);
        if (fmg_cycle != prev.fmg_cycle) s.FMG_cycle(static_cast<MultigridCycleType>(fmg_cycle));
        if (extrapolation != prev.extrapolation) s.extrapolation(static_cast<ExtrapolationType>(extrapolation));
        if (max_levels != prev.max_levels) s.maxLevels(max_levels);
        if (pre != prev.pre) s.preSmoothingSteps(pre);
        if (post != prev.post) s.postSmoothingSteps(post);
        if (cycle != prev.cycle) s.multigridCycle(static_cast<MultigridCycleType>(cycle));
        if (max_its != prev.max_its) s.maxIterations(max_its);
        if (norm != prev.norm) s.residualNormType(static_cast<ResidualNormType>(norm));
        if (abs_tol != prev.abs_tol) s.absoluteTolerance(abs_tol);
        if (rel_tol != prev.rel_tol) s.relativeTolerance(rel_tol);
        if (threads != prev.threads) s.maxOpenMPThreads(threads);
        if (reduction != prev.reduction) s.threadReductionFactor(reduction);
        if (strategy != prev.strategy) s.stencilDistributionMethod(static_cast<StencilDistributionMethod>(strategy));
        if (cache_coef != prev.cache_coef) s.cacheDensityProfileCoefficients(cache_coef != 0);
        if (cache_geom != prev.cache_geom) s.cacheDomainGeometry(cache_geom != 0);
    }
    // Grids that only files can describe (load_grid_file): numbers of angular divisions that are not powers of two but
    // coarsenable, non-uniform radii, non-uniform (midpoint-nested, antipodally paired) angles. The files are written on
    // first use and removed at process exit.
    //   1: 17 x 24 uniform   2: 33 x 48 uniform   3: 17 x 12 uniform   4: 25 x 40, geometric radii   5: 17 x 32, radii and
    //   angles with alternating interval widths (fine nodes are midpoints)
    std::pair<std::string, std::string> gridFiles() const
    {
        static const int kNr[7] = {0, 17, 33, 17, 25, 17, 0}, kNt[7] = {0, 24, 48, 12, 40, 32, 0};
        int nr = kNr[grid_kind], nt = kNt[grid_kind];
        char tag[200];
        snprintf(tag, sizeof tag, "/verif_grid_%ld_%d_%016llx", (long)getpid(), grid_kind,
                 (unsigned long long)fnv1a(KVnum(R0) + "/" + KVnum(Rmax) +
                                           (grid_kind == 6 ? "/" + std::to_string(nr_exp) + "/" + std::to_string(ntheta_exp) + "/" + std::to_string(aniso) +
                                                                 "/" + std::to_string(div) + "/" + KVnum(alpha_jump)
                                                           : std::string())));
        // One pair of file names per process, rewritten whenever another grid is asked for: a user's refinement loop writes
        // every grid into the same two files, so "the file names did not change" must not be taken for "the grid did not
        // change". (Files are read by setup() only, and every harness applies a configuration right before it calls setup().)
        const char* t = getenv("TMPDIR");
        char fixed[96];
        snprintf(fixed, sizeof fixed, "/verif_grid_%ld", (long)getpid());
        const std::string base = std::string(t ? t : "/tmp") + fixed;
        const std::string fr = base + "_r.txt", ft = base + "_t.txt";
        static std::vector<std::string> written;
        static std::string currentKey;
        if (currentKey != tag) {
            currentKey = tag;
            if (written.empty()) {
                written.push_back(fr);
                written.push_back(ft);
                atexit([] {
                    for (auto& f : written)
                        std::remove(f.c_str());
                });
            }
            std::vector<double> r(nr), a(nt + 1);
            if (grid_kind == 6) {
                // 6: the grid this configuration's generator options describe, written out and loaded back (the write-then-load
                //    workflow of write_grid_file / load_grid_file): node for node the generated grid
                PolarGrid gen(R0, Rmax, nr_exp, ntheta_exp, alpha_jump, aniso, div);
                r  = gen.radii();
                a  = gen.angles();
                nr = (int)r.size();
                nt = (int)a.size() - 1;
            }
            for (int i = 0; i < nr && grid_kind != 6; i++) {
                double x = (double)i / (nr - 1);
                if (grid_kind == 4)
                    x = (std::pow(3.0, x) - 1.0) / 2.0; // geometric
                r[i] = R0 + (Rmax - R0) * x;
            }
            if (grid_kind == 5) // coarse intervals alternate 1 : 2, fine nodes are midpoints
                for (int i = 0; i + 4 < nr + 3 && i + 4 <= nr - 1; i += 4) {
                    const double a0 = r[i], a4 = r[i + 4], a2 = a0 + (a4 - a0) / 3.0;
                    r[i + 1] = 0.5 * (a0 + a2);
                    r[i + 2] = a2;
                    r[i + 3] = 0.5 * (a2 + a4);
                }
            r[0]      = R0;
            r[nr - 1] = Rmax;
            for (int j = 0; j <= nt && grid_kind != 6; j++)
                a[j] = 2 * M_PI * j / nt;
            if (grid_kind == 5) {
                const int m = nt / 2; // half turn; blocks of 4 fine intervals with coarse widths 1 : 2
                for (int j = 0; j + 4 <= m; j += 4) {
                    const double a0 = M_PI * j / m, a4 = M_PI * (j + 4) / m, a2 = a0 + (a4 - a0) / 3.0;
                    a[j + 1] = 0.5 * (a0 + a2);
                    a[j + 2] = a2;
                    a[j + 3] = 0.5 * (a2 + a4);
                }
                for (int j = 0; j < m; j++)
                    a[m + j] = a[j] + M_PI;
            }
            a[0]  = 0.0;
            a[nt] = 2 * M_PI;
            FILE* f = fopen(fr.c_str(), "w");
            for (double v : r)
                fprintf(f, "%.17g\n", v);
            fclose(f);
            f = fopen(ft.c_str(), "w");
            for (double v : a)
                fprintf(f, "%.17g\n", v);
            fclose(f);
        }
        return {fr, ft};
    }
    // the whole configuration as a command line (option names of the shipped parser)
    std::vector<std::string> argvAll() const
    {
        auto I = [](long v) { return std::to_string(v); };
        return {"gmgpolar", "--verbose", I(verbose), "--paraview", "0", "--geometry", I(geometry), "--problem", I(problem), "--alpha_coeff", I(alpha),
                "--beta_coeff", I(beta), "--kappa_eps", KVnum(kappa_eps), "--delta_e", KVnum(delta_e), "--alpha_jump", KVnum(alpha_jump),
                "--Rmax", KVnum(Rmax), "--R0", KVnum(r0Option()), "--nr_exp", I(nr_exp), "--ntheta_exp", I(ntheta_exp), "--anisotropic_factor", I(aniso),
                "--divideBy2", I(div), "--write_grid_file", "0", "--load_grid_file", I(grid_kind > 0), "--file_grid_radii", grid_kind > 0 ? gridFiles().first : std::string("none"),
                "--file_grid_angles", grid_kind > 0 ? gridFiles().second : std::string("none"), "--DirBC_Interior", I(dirbc != 0), "--FMG", I(fmg != 0),
                "--FMG_iterations", I(fmg_its), "--FMG_cycle", I(fmg_cycle), "--extrapolation", I(extrapolation), "--maxLevels", I(max_levels),
                "--preSmoothingSteps", I(pre), "--postSmoothingSteps", I(post), "--multigridCycle", I(cycle), "--maxIterations", I(max_its),
                "--residualNormType", I(norm), "--absoluteTolerance", KVnum(abs_tol), "--relativeTolerance", KVnum(rel_tol),
                "--maxOpenMPThreads", I(std::max(threads, 1)), "--threadReductionFactor", KVnum(reduction), "--stencilDistributionMethod", I(strategy),
                "--cacheDensityProfileCoefficients", I(cache_coef != 0), "--cacheDomainGeometry", I(cache_geom != 0)};
    }
    std::unique_ptr<GMGPolar> make() const
    {
        auto s = std::make_unique<GMGPolar>();
        if (via_cli) {
            std::vector<std::string> a = argvAll();
            std::vector<char*> argv;
            for (auto& x : a)
                argv.push_back(const_cast<char*>(x.c_str()));
            s->setParameters((int)argv.size(), argv.data());
            return s;
        }
        select(*s);
        applyOptions(*s);
        return s;
    }
    // expected finest grid size
    long nrFine() const
    {
        return ((1L << nr_exp)) * (1L << div) + 1;
    }
};

#ifndef VERIF_NO_RAPIDCHECK
// geometry parameters in their valid ranges; the shipped defaults first
inline void genGeometryParams(SolverCfg& s)
{
    s.Rmax = rpick({1.3, 1.3, 1.0, 2.0});
    if (s.geometry == 1) {
        switch (rweighted({4, 4, 1, 1, 1})) {
        case 0:
            s.kappa_eps = 0.3;
            s.delta_e   = 0.2;
            break;
        case 1:
            s.kappa_eps = runi(0.0, 0.5);
            s.delta_e   = runi(0.0, 0.4 * (1 - s.kappa_eps));
            break;
        case 2: // the command-line defaults of -k / -d: the Shafranov mapping degenerates to the circle (still valid)
            s.kappa_eps = 0.0;
            s.delta_e   = 0.0;
            break;
        case 3:
            s.kappa_eps = 0.0;
            s.delta_e   = runi(0.0, 0.4);
            break;
        default:
            s.kappa_eps = runi(0.0, 0.5);
            s.delta_e   = 0.0;
            break;
        }
    }
    else if (s.geometry == 2) {
        if (rint(0, 1) == 0) {
            s.kappa_eps = 0.3;
            s.delta_e   = 1.4;
        }
        else {
            s.kappa_eps = runi(0.1, 0.6);
            s.delta_e   = runi(0.7, 1.8);
        }
    }
    else {
        s.kappa_eps = 0;
        s.delta_e   = 0;
    }
    // radius of rapid decay: the documented values per profile, or a random one inside the domain
    static const double jumps[4] = {0.5, 0.66, 0.4837, 0.7081};
    s.alpha_jump                 = (rint(0, 2) == 0 ? runi(0.35, 0.85) : jumps[s.alpha]) * s.Rmax;
}
#endif
