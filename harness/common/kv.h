// Plain-text case files: "key=value" lines; doubles are written as hex floats (exact).
#pragma once
#include <cinttypes>
#include <cmath>
#include <cstdio>
#include <cstdlib>
#include <cstring>
#include <fstream>
#include <map>
#include <sstream>
#include <stdexcept>
#include <string>
#include <vector>

struct KV {
    std::vector<std::pair<std::string, std::string>> items;

    static std::string d2s(double v)
    {
        char buf[64];
        snprintf(buf, sizeof buf, "%a", v);
        return buf;
    }
    int find(const std::string& k) const
    {
        for (size_t i = 0; i < items.size(); i++)
            if (items[i].first == k)
                return (int)i;
        return -1;
    }
    bool has(const std::string& k) const
    {
        return find(k) >= 0;
    }
    void putS(const std::string& k, const std::string& v)
    {
        int i = find(k);
        if (i >= 0)
            items[i].second = v;
        else
            items.emplace_back(k, v);
    }
    void putI(const std::string& k, long long v)
    {
        putS(k, std::to_string(v));
    }
    void putU(const std::string& k, unsigned long long v)
    {
        putS(k, std::to_string(v));
    }
    void putD(const std::string& k, double v)
    {
        putS(k, d2s(v));
    }
    void putVD(const std::string& k, const std::vector<double>& v)
    {
        std::string s;
        for (size_t i = 0; i < v.size(); i++) {
            if (i)
                s += ' ';
            s += d2s(v[i]);
        }
        putS(k, s);
    }
    void putVI(const std::string& k, const std::vector<int>& v)
    {
        std::string s;
        for (size_t i = 0; i < v.size(); i++) {
            if (i)
                s += ' ';
            s += std::to_string(v[i]);
        }
        putS(k, s);
    }
    const std::string& getS(const std::string& k) const
    {
        int i = find(k);
        if (i < 0)
            throw std::runtime_error("case file: missing key " + k);
        return items[i].second;
    }
    std::string getS(const std::string& k, const std::string& dflt) const
    {
        int i = find(k);
        return i < 0 ? dflt : items[i].second;
    }
    long long getI(const std::string& k) const
    {
        return std::strtoll(getS(k).c_str(), nullptr, 10);
    }
    long long getI(const std::string& k, long long dflt) const
    {
        return has(k) ? getI(k) : dflt;
    }
    unsigned long long getU(const std::string& k) const
    {
        return std::strtoull(getS(k).c_str(), nullptr, 10);
    }
    double getD(const std::string& k) const
    {
        return std::strtod(getS(k).c_str(), nullptr);
    }
    double getD(const std::string& k, double dflt) const
    {
        return has(k) ? getD(k) : dflt;
    }
    std::vector<double> getVD(const std::string& k) const
    {
        std::vector<double> v;
        const std::string& s = getS(k);
        const char* p        = s.c_str();
        char* e;
        while (*p) {
            while (*p == ' ')
                p++;
            if (!*p)
                break;
            double d = std::strtod(p, &e);
            if (e == p)
                break;
            v.push_back(d);
            p = e;
        }
        return v;
    }
    std::vector<int> getVI(const std::string& k) const
    {
        std::vector<int> v;
        std::istringstream is(getS(k));
        long long x;
        while (is >> x)
            v.push_back((int)x);
        return v;
    }
    std::string text() const
    {
        std::string s;
        for (auto& kv : items)
            s += kv.first + "=" + kv.second + "\n";
        return s;
    }
    // human readable: hex floats additionally shown in decimal, long arrays shortened
    std::string pretty(size_t maxlen = 400) const
    {
        std::string s;
        for (auto& kv : items) {
            std::string v = kv.second;
            if (v.find("0x") != std::string::npos) {
                std::istringstream is(v);
                std::string tok, out;
                int n = 0;
                while (is >> tok) {
                    char buf[40];
                    snprintf(buf, sizeof buf, "%.6g", std::strtod(tok.c_str(), nullptr));
                    if (n++)
                        out += ' ';
                    out += buf;
                }
                v = out;
            }
            if (v.size() > maxlen)
                v = v.substr(0, maxlen) + "...";
            s += kv.first + "=" + v + "; ";
        }
        return s;
    }
    void save(const std::string& path) const
    {
        std::string tmp = path + ".tmp";
        {
            std::ofstream f(tmp, std::ios::binary | std::ios::trunc);
            f << text();
            f.flush();
        }
        std::rename(tmp.c_str(), path.c_str());
    }
    static KV load(const std::string& path)
    {
        std::ifstream f(path);
        if (!f)
            throw std::runtime_error("cannot open case file " + path);
        KV kv;
        std::string line;
        while (std::getline(f, line)) {
            if (line.empty() || line[0] == '#')
                continue;
            size_t p = line.find('=');
            if (p == std::string::npos)
                continue;
            kv.items.emplace_back(line.substr(0, p), line.substr(p + 1));
        }
        return kv;
    }
};

inline uint64_t fnv1a(const std::string& s)
{
    uint64_t h = 1469598103934665603ULL;
    for (unsigned char c : s) {
        h ^= c;
        h *= 1099511628211ULL;
    }
    return h;
}

// Counter-based generator for bulk numeric payloads. It is always seeded from a value
// drawn through rapidcheck (recorded in the case file), so a case replays exactly.
struct Rnd {
    uint64_t s;
    explicit Rnd(uint64_t seed)
        : s(seed * 0x9E3779B97F4A7C15ULL + 0x1234567ULL)
    {
    }
    uint64_t next()
    {
        uint64_t z = (s += 0x9E3779B97F4A7C15ULL);
        z          = (z ^ (z >> 30)) * 0xBF58476D1CE4E5B9ULL;
        z          = (z ^ (z >> 27)) * 0x94D049BB133111EBULL;
        return z ^ (z >> 31);
    }
    double uni() // [0,1)
    {
        return (next() >> 11) * (1.0 / 9007199254740992.0);
    }
    double uni(double a, double b)
    {
        return a + (b - a) * uni();
    }
    int irange(int a, int b) // inclusive
    {
        return a + (int)(next() % (uint64_t)(b - a + 1));
    }
    double normal()
    {
        double u1 = uni(), u2 = uni();
        if (u1 < 1e-300)
            u1 = 1e-300;
        return std::sqrt(-2.0 * std::log(u1)) * std::cos(6.283185307179586 * u2);
    }
};
