// C17 case and oracle (shared by the rapidcheck harness and the libFuzzer target f17).
#pragma once
#include "engine.h"
#include "gridgen.h"
#include "PolarGrid/polargrid.h"
#include <climits>
#include <optional>

inline Outcome checkGrid(const PolarGrid& g, const std::vector<double>& radii, const std::vector<double>& angles,
                         bool explicitSplit, double split, uint64_t probeSeed, Outcome o)
{
    const int nr = (int)radii.size(), nt = (int)angles.size() - 1, N = nr * nt;
    auto F = [&](const std::string& orc, const std::string& m) {
        o.fail(orc, m);
        return o;
    };
    if (g.nr() != nr || g.ntheta() != nt || g.numberOfNodes() != N)
        return F("dims", "nr/ntheta/numberOfNodes do not match the input arrays");
    for (int i = 0; i < nr; i++)
        if (g.radius(i) != radii[i])
            return F("coords", "radius(i) differs from the input");
    for (int j = 0; j <= nt; j++)
        if (g.theta(j) != angles[j])
            return F("coords", "theta(j) differs from the input");
    const int nC = g.numberSmootherCircles(), len = g.lengthSmootherRadial();
    if (nC < 0 || len < 0 || nC + len != nr || g.numberCircularSmootherNodes() != nC * nt ||
        g.numberRadialSmootherNodes() != len * nt)
        return F("split_counts", "circle/radial counts do not partition the grid");
    if (explicitSplit) {
        int expect = 0;
        for (int i = 0; i < nr; i++)
            if (radii[i] < split)
                expect++;
        if (nC != expect)
            return F("split_position", "explicit split " + std::to_string(split) + ": " + std::to_string(nC) +
                                           " circles, expected the " + std::to_string(expect) + " radii below it");
    }
    else {
        if (nC < std::min(2, nr))
            return F("split_auto", "automatic split produced fewer than two circles");
        if (nr >= 6 && (nC < 3 || len < 3))
            return F("split_auto", "automatic split violates circles>=3, radial length>=3 on a grid with nr>=6");
    }
    // bijection: mark all N
    std::vector<char> seen(N, 0);
    for (int i = 0; i < nr; i++)
        for (int j = 0; j < nt; j++) {
            int k = g.index(i, j);
            if (k < 0 || k >= N)
                return F("bijection", "index out of range");
            if (seen[k])
                return F("bijection", "two nodes share index " + std::to_string(k));
            seen[k] = 1;
            if (g.fastIndex(i, j) != k)
                return F("fast_index", "fastIndex differs from index");
            if (g.index(MultiIndex(i, j)) != k)
                return F("ref_index", "index(MultiIndex) differs from index(int,int)");
            int ri, ti;
            g.multiIndex(k, ri, ti);
            if (ri != i || ti != j)
                return F("inverse", "multiIndex(index(i,j)) != (i,j)");
            MultiIndex mi = g.multiIndex(k);
            if (mi[0] != i || mi[1] != j)
                return F("inverse", "reference multiIndex(index(i,j)) != (i,j)");
            // circle section below nC, numbered theta-major; radial section r-major
            bool inCircle = k < g.numberCircularSmootherNodes();
            if (inCircle != (i < nC))
                return F("split_partition", "node section does not match i_r < numberSmootherCircles");
            if (i < nC && j + 1 < nt && g.index(i, j + 1) != k + 1)
                return F("numbering", "circle section is not numbered theta-major");
            if (i >= nC && i + 1 < nr && g.index(i + 1, j) != k + 1)
                return F("numbering", "radial section is not numbered r-major");
            Point p = g.polarCoordinates(MultiIndex(i, j));
            if (p[0] != radii[i] || p[1] != angles[j])
                return F("coords", "polarCoordinates differs from the arrays");
        }
    // periodic wrap for any integer offset
    Rnd r(probeSeed);
    std::vector<long long> probes = {0, -1, nt, -nt, nt - 1, 2LL * nt + 1, INT_MAX, INT_MIN, INT_MIN + 1, INT_MAX - 1};
    for (int t = 0; t < 40; t++)
        probes.push_back((long long)r.irange(-1000000, 1000000));
    for (long long u : probes) {
        int w        = g.wrapThetaIndex((int)u);
        long long ex = ((u % nt) + nt) % nt;
        if (w != (int)ex)
            return F("wrap", "wrapThetaIndex(" + std::to_string(u) + ")=" + std::to_string(w) + ", expected " +
                                 std::to_string(ex));
        int ir = r.irange(0, nr - 1);
        if (g.index(ir, (int)u) != g.index(ir, (int)ex))
            return F("wrap", "index with unwrapped angle differs from the wrapped one");
        if (g.angularSpacing((int)u) != angles[ex + 1] - angles[ex])
            return F("spacing", "angularSpacing(unwrapped) != theta(w+1)-theta(w)");
    }
    for (int i = 0; i + 1 < nr; i++)
        if (g.radialSpacing(i) != radii[i + 1] - radii[i])
            return F("spacing", "radialSpacing != coordinate difference");
    // neighbours
    for (int t = 0; t < std::min(N, 64); t++) {
        int i = r.irange(0, nr - 1), j = r.irange(0, nt - 1);
        if (t == 0) {
            i = 0;
            j = 0;
        }
        if (t == 1) {
            i = nr - 1;
            j = nt - 1;
        }
        std::array<std::pair<int, int>, space_dimension> nb, dg;
        std::array<std::pair<double, double>, space_dimension> ds;
        g.adjacentNeighborsOf(MultiIndex(i, j), nb);
        g.diagonalNeighborsOf(MultiIndex(i, j), dg);
        g.adjacentNeighborDistances(MultiIndex(i, j), ds);
        auto idx = [&](int a, int b) { return (a < 0 || a >= nr) ? -1 : g.index(a, b); };
        if (nb[0].first != idx(i - 1, j) || nb[0].second != idx(i + 1, j) || nb[1].first != idx(i, j - 1) ||
            nb[1].second != idx(i, j + 1))
            return F("neighbours", "adjacentNeighborsOf disagrees with index arithmetic");
        if (dg[0].first != idx(i - 1, j - 1) || dg[0].second != idx(i + 1, j - 1) || dg[1].first != idx(i - 1, j + 1) ||
            dg[1].second != idx(i + 1, j + 1))
            return F("neighbours", "diagonalNeighborsOf disagrees with index arithmetic");
        double h1 = i > 0 ? radii[i] - radii[i - 1] : 0.0, h2 = i + 1 < nr ? radii[i + 1] - radii[i] : 0.0;
        int jm = (j + nt - 1) % nt;
        if (ds[0].first != h1 || ds[0].second != h2 || ds[1].first != angles[jm + 1] - angles[jm] ||
            ds[1].second != angles[j + 1] - angles[j])
            return F("spacing", "adjacentNeighborDistances disagrees with the coordinate arrays");
    }
    return o;
}

// ctor: 0 vectors (default), 1 parametric constructor (R0, Rmax, nr_exp, ntheta_exp, refinement, aniso, div), 2 files
// (the case's arrays are written with 17 fixed digits and loaded by the file constructor). For 1 and 2 the coordinate
// arrays the oracle compares with are the ones the grid reports (their validity is C18's subject); "every grid" of the
// statement includes the grids the solver builds itself (refined, anisotropic) and copies/moves of a grid.
inline Outcome runGridIndexCase(const KV& c)
{
    Outcome o;
    auto radii  = c.getVD("radii");
    auto angles = c.getVD("angles");
    const int ctor           = (int)c.getI("ctor", 0);
    const bool explicitSplit = c.getI("split_mode") == 1;
    const double split       = c.getD("split", 0.0);
    const bool expectReject  = c.getI("expect_reject", 0) != 0;
    const uint64_t seed      = c.getU("probe_seed");
    std::optional<double> optSplit = explicitSplit ? std::optional<double>(split) : std::nullopt;
    std::unique_ptr<PolarGrid> g;
    o.cls("ctor_" + std::to_string(ctor));
    try {
        if (ctor == 1) {
            g = std::make_unique<PolarGrid>(c.getD("p_R0"), c.getD("p_Rmax"), (int)c.getI("p_nr_exp"), (int)c.getI("p_ntheta_exp"),
                                            c.getD("p_refinement"), (int)c.getI("p_aniso"), (int)c.getI("p_div"), optSplit);
        }
        else if (ctor == 2) {
            const char* t          = getenv("TMPDIR");
            const std::string base = std::string(t ? t : "/tmp") + "/verif_c17_" + std::to_string((long)getpid());
            const std::string fr = base + "_r.txt", ft = base + "_t.txt";
            {
                FILE* f = fopen(fr.c_str(), "w");
                for (double v : radii)
                    fprintf(f, "%.17f\n", v);
                fclose(f);
                f = fopen(ft.c_str(), "w");
                for (double v : angles)
                    fprintf(f, "%.17f\n", v);
                fclose(f);
            }
            struct Rm {
                std::string a, b;
                ~Rm()
                {
                    std::remove(a.c_str());
                    std::remove(b.c_str());
                }
            } rm{fr, ft};
            g = std::make_unique<PolarGrid>(fr, ft, optSplit);
        }
        else
            g = explicitSplit ? std::make_unique<PolarGrid>(radii, angles, split) : std::make_unique<PolarGrid>(radii, angles);
    }
    catch (const std::invalid_argument&) {
        o.cls("rejected_invalid_argument");
        o.cls("rejected_ctor_" + std::to_string(ctor));
        if (!expectReject && ctor == 0)
            o.fail("spurious_rejection", "an admissible grid was rejected");
        o.nontrivial = false;
        return o;
    }
    if (expectReject) {
        o.fail("accepted_invalid", std::string("constructor accepted an inadmissible grid: ") + c.getS("reject_why", ""));
        return o;
    }
    if (ctor != 0) {
        radii  = g->radii();
        angles = g->angles();
        if (radii.size() < 2 || angles.size() < 3) {
            o.fail("dims", "constructor returned a grid with fewer than two radii or two angular divisions");
            return o;
        }
    }
    // copies and moves of a grid index like the original (cached members travel with the object)
    {
        const int how = (int)(seed % 5);
        if (how == 1) {
            g = std::make_unique<PolarGrid>(*g);
            o.cls("grid_copy_constructed");
        }
        else if (how == 2) {
            std::vector<double> r2 = {0.25, 0.5, 1.0}, a2 = {0.0, M_PI / 2, M_PI, 3 * M_PI / 2, 2 * M_PI};
            auto h = std::make_unique<PolarGrid>(r2, a2);
            *h     = *g;
            g      = std::move(h);
            o.cls("grid_copy_assigned");
        }
        else if (how == 3) {
            PolarGrid tmp(std::move(*g));
            g = std::make_unique<PolarGrid>(std::move(tmp));
            o.cls("grid_moved");
        }
    }
    const int nr = (int)radii.size(), nt = (int)angles.size() - 1;
    const int nC = g->numberSmootherCircles();
    const bool pow2 = (nt & (nt - 1)) == 0;
    o.nontrivial    = !pow2 || nC == 0 || nC == nr || explicitSplit || ctor != 0;
    o.signature     = std::to_string(nr) + "x" + std::to_string(nt) + "c" + std::to_string(nC) + (explicitSplit ? "e" : "a") + "k" + std::to_string(ctor) +
                  (ctor == 1 ? "d" + std::to_string(c.getI("p_div")) + "a" + std::to_string(c.getI("p_aniso")) : std::string());
    o.cls(pow2 ? "ntheta_pow2" : "ntheta_not_pow2");
    o.cls(explicitSplit ? "split_explicit" : "split_auto");
    if (nC == 0)
        o.cls("no_circles");
    if (nC == nr)
        o.cls("only_circles");
    if (nr <= 3)
        o.cls("nr_le_3");
    o = checkGrid(*g, radii, angles, explicitSplit, split, seed, o);
    if (!o.ok)
        return o;
    // coarsening chain down to the smallest grid
    std::unique_ptr<PolarGrid> cur = std::move(g);
    int depth                      = 0;
    while (cur->nr() >= 3 && cur->nr() % 2 == 1 && cur->ntheta() % 4 == 0) {
        PolarGrid coarse = coarseningGrid(*cur);
        if (coarse.nr() != (cur->nr() + 1) / 2 || coarse.ntheta() != cur->ntheta() / 2) {
            o.fail("coarsening", "coarse grid has the wrong dimensions");
            return o;
        }
        std::vector<double> cr, ca;
        for (int i = 0; i < cur->nr(); i += 2)
            cr.push_back(cur->radius(i));
        for (int j = 0; j <= cur->ntheta(); j += 2)
            ca.push_back(cur->theta(j));
        if (cr != coarse.radii() || ca != coarse.angles() || coarse.radii().front() != cur->radii().front() ||
            coarse.radii().back() != cur->radii().back()) {
            o.fail("coarsening", "coarse grid does not keep every second node including both boundaries");
            return o;
        }
        o = checkGrid(coarse, cr, ca, false, 0.0, seed + depth + 1, o);
        if (!o.ok)
            return o;
        cur = std::make_unique<PolarGrid>(coarse);
        depth++;
    }
    if (depth >= 2)
        o.cls("coarsened_twice_or_more");
    return o;
}

#ifndef VERIF_NO_RAPIDCHECK
inline KV genGridIndexCase()
{
    KV c;
    int nr, nt;
    if (rint(0, 9) == 0)
        nr = rint(2, 3);
    else
        nr = rweighted({6, 3, 1}) == 0 ? rint(4, 12) : (rbool() ? rint(13, 40) : rpick({17, 33, 65}));
    nt = 2 * (rweighted({1, 8, 4}) == 0 ? 1 : (rbool() ? rint(2, 12) : rpick({4, 8, 16, 32, 64})));
    const double Rmax = runi(0.5, 2.0);
    const double R0   = Rmax * genR0overRmax();
    auto radii        = genRadii(nr, rint(0, 3) == 3 && nr % 2 == 0 ? 2 : rint(0, 3), R0, Rmax);
    auto angles       = genAngles(nt, rint(0, 2));
    int mode          = rint(0, 2) == 0 ? 0 : 1;
    double split      = 0;
    if (mode == 1) {
        switch (rint(0, 5)) {
        case 0:
            split = R0 * 0.5;
            break; // below R0
        case 1:
            split = Rmax * 1.5;
            break; // above Rmax
        case 2:
            split = radii[rint(0, nr - 1)];
            break; // exactly on a radius
        case 3:
            split = Rmax;
            break;
        default:
            split = runi(R0, Rmax);
            break;
        }
    }
    // a share of inadmissible inputs: must be rejected with std::invalid_argument
    int bad = rint(0, 19);
    std::string why;
    if (bad == 0 && nr >= 3) {
        std::swap(radii[1], radii[2]);
        why = "radii not increasing";
    }
    else if (bad == 1) {
        radii[0] = -radii[0];
        why      = "negative radius";
    }
    else if (bad == 2) {
        angles.back() = 6.0;
        why           = "last angle not 2 pi";
    }
    else if (bad == 3 && nt >= 4) {
        const double cand = 0.5 * (angles[1] + angles[2]);
        if (std::fabs(cand - (angles[nt / 2 + 1] - M_PI)) > 1e-6) {
            angles[1] = cand;
            why       = "angle without antipodal partner";
        }
    }
    else if (bad == 4) {
        radii.resize(1);
        why = "one radius";
    }
    else if (bad == 5 && nt >= 4) {
        // two extra angles in the SECOND half turn: every angle of [0, pi) still has its opposite, the new ones have none
        const int m = nt / 2;
        const int j1 = m + rint(0, m - 1), j2 = m + rint(0, m - 1);
        std::vector<double> extra = {0.5 * (angles[j1] + angles[j1 + 1]), 0.25 * angles[j2] + 0.75 * angles[j2 + 1]};
        if (extra[0] != extra[1]) {
            for (double e : extra)
                angles.push_back(e);
            std::sort(angles.begin(), angles.end());
            why = "angles of the second half turn without antipodal partner";
        }
    }
    if (!why.empty()) {
        c.putI("expect_reject", 1);
        c.putS("reject_why", why);
    }
    c.putVD("radii", radii);
    c.putVD("angles", angles);
    c.putI("split_mode", mode);
    c.putD("split", split);
    c.putU("probe_seed", rseed());
    // constructor: vectors (60%), the parametric constructor the solver uses (30%), files (10%)
    const int ctor = why.empty() ? rweighted({6, 3, 1}) : 0;
    c.putI("ctor", ctor);
    if (ctor == 1) {
        const int nr_exp = rint(2, 5);
        const int aniso  = rweighted({3, 1, 1}) == 0 ? 0 : rint(1, std::min(nr_exp - 1, 3));
        c.putD("p_R0", R0);
        c.putD("p_Rmax", Rmax);
        c.putI("p_nr_exp", nr_exp);
        c.putI("p_ntheta_exp", rweighted({2, 3}) == 0 ? -1 : rint(2, 6));
        c.putI("p_aniso", aniso);
        c.putI("p_div", rweighted({2, 2, 1}));
        c.putD("p_refinement", R0 + (Rmax - R0) * runi(0.3, 0.9));
        if (mode == 1 && (split == radii[0] || rint(0, 2) == 0))
            c.putD("split", runi(R0, Rmax));
    }
    return c;
}
#endif
