// Independent recomputation of the (extrapolated) residual of the discrete system from the returned solution and
// the problem data: freshly constructed input functions, own discretised right-hand side, reference operator
// (long double gather stencil), own coarse grid / injection / (4 r_h - r_2h)/3 combination, own norms.
#pragma once
#include "refop.h"
#include "solver_cfg.h"

struct IndepProblem {
    std::unique_ptr<GMGPolar> holder; // owns freshly constructed input functions (never set up, never solved)
    const DomainGeometry* geo;
    const DensityProfileCoefficients* co;
    const BoundaryConditions* bc;
    const SourceTerm* src;
    const ExactSolution* ex;
    bool dirbc;

    explicit IndepProblem(const SolverCfg& cfg)
    {
        holder = cfg.make();
        geo    = GMGPolarVerifAccess::geometry(*holder);
        co     = GMGPolarVerifAccess::coefficients(*holder);
        bc     = GMGPolarVerifAccess::boundary(*holder);
        src    = GMGPolarVerifAccess::source(*holder);
        ex     = GMGPolarVerifAccess::exact(*holder);
        dirbc  = cfg.dirbc != 0;
    }
    // discretised right-hand side on a grid
    std::vector<LD> rhs(const PolarGrid& g) const
    {
        const int nr = g.nr(), nt = g.ntheta();
        std::vector<LD> f((size_t)nr * nt);
        for (int i = 0; i < nr; i++)
            for (int j = 0; j < nt; j++) {
                const double r = g.radius(i), t = g.theta(j), s = std::sin(t), c = std::cos(t);
                LD v;
                if (i == nr - 1)
                    v = bc->u_D(r, t, s, c);
                else if (i == 0 && dirbc)
                    v = bc->u_D_Interior(r, t, s, c);
                else {
                    const LD h1 = i == 0 ? 2.0L * (LD)g.radius(0) : (LD)g.radius(i) - (LD)g.radius(i - 1);
                    const LD h2 = (LD)g.radius(i + 1) - (LD)g.radius(i);
                    const int jm = (j + nt - 1) % nt;
                    const LD k1 = (LD)g.theta(jm + 1) - (LD)g.theta(jm), k2 = (LD)g.theta(j + 1) - (LD)g.theta(j);
                    const LD xr = geo->dFx_dr(r, t, s, c), yr = geo->dFy_dr(r, t, s, c), xt = geo->dFx_dt(r, t, s, c),
                             yt = geo->dFy_dt(r, t, s, c);
                    v = (LD)src->rhs_f(r, t, s, c) * 0.25L * (h1 + h2) * (k1 + k2) * fabsl(xr * yt - xt * yr);
                }
                f[g.index(i, j)] = v;
            }
        return f;
    }
    // r = f - A u on grid g
    std::vector<LD> residual(const PolarGrid& g, const Vector<double>& u) const
    {
        RefOp A(g, *geo, *co, dirbc);
        std::vector<LD> Au, mag, f = rhs(g);
        A.apply(u, Au, mag);
        for (size_t i = 0; i < f.size(); i++)
            f[i] -= Au[i];
        return f;
    }
    // the residual the stopping criterion is defined on: plain, or implicitly extrapolated
    std::vector<LD> stopResidual(const PolarGrid& g, const Vector<double>& u, bool extrapolated) const
    {
        std::vector<LD> r = residual(g, u);
        if (!extrapolated)
            return r;
        PolarGrid cg = coarseningGrid(g);
        Vector<double> uc(cg.numberOfNodes());
        for (int i = 0; i < cg.nr(); i++)
            for (int j = 0; j < cg.ntheta(); j++)
                uc[cg.index(i, j)] = u[g.index(2 * i, 2 * j)];
        std::vector<LD> rc = residual(cg, uc);
        for (int i = 0; i < g.nr(); i++)
            for (int j = 0; j < g.ntheta(); j++) {
                const int k = g.index(i, j);
                if ((i & 1) || (j & 1))
                    r[k] *= 4.0L / 3.0L;
                else
                    r[k] = (4.0L * r[k] - rc[cg.index(i / 2, j / 2)]) / 3.0L;
            }
        return r;
    }
    static LD norm(const std::vector<LD>& r, int type)
    {
        LD s = 0;
        if (type == 2) {
            for (LD v : r)
                s = std::max(s, fabsl(v));
            return s;
        }
        for (LD v : r)
            s += v * v;
        s = sqrtl(s);
        if (type == 1)
            s /= sqrtl((LD)r.size());
        return s;
    }
};
