// Reference discrete operator A_ref, written in gather form in long double from the documented
// finite-volume stencil; independent of LevelCache, geometry_helper.h and both residual implementations.
// It shares only the virtual functions of DomainGeometry / DensityProfileCoefficients with the code
// (those are validated separately by C19).
#pragma once
#include "dense.h"
#include "problem.h"

struct RefOp {
    const PolarGrid& g;
    bool dirbc;
    int nr, nt;
    std::vector<LD> arr, att, art, det, beta; // per node (i*nt+j) / per radius

    RefOp(const PolarGrid& grid, const DomainGeometry& geo, const DensityProfileCoefficients& co, bool dirbc_)
        : g(grid)
        , dirbc(dirbc_)
        , nr(grid.nr())
        , nt(grid.ntheta())
    {
        arr.resize((size_t)nr * nt);
        att.resize((size_t)nr * nt);
        art.resize((size_t)nr * nt);
        det.resize((size_t)nr * nt);
        beta.resize(nr);
        for (int i = 0; i < nr; i++) {
            const double r = g.radius(i);
            const LD alpha = co.alpha(r);
            beta[i]        = co.beta(r);
            for (int j = 0; j < nt; j++) {
                const double t = g.theta(j), s = std::sin(t), c = std::cos(t);
                const LD xr = geo.dFx_dr(r, t, s, c), yr = geo.dFy_dr(r, t, s, c), xt = geo.dFx_dt(r, t, s, c),
                         yt = geo.dFy_dt(r, t, s, c);
                const LD d  = xr * yt - xt * yr;
                const LD ad = fabsl(d);
                // 1/2 * alpha * |det DF| * DF^-1 DF^-T  (the mixed entry carries the factor 2 of the symmetric sum)
                arr[i * nt + j] = 0.5L * alpha * (yt * yt + xt * xt) / ad;
                att[i * nt + j] = 0.5L * alpha * (yr * yr + xr * xr) / ad;
                art[i * nt + j] = alpha * (-yt * yr - xt * xr) / ad;
                det[i * nt + j] = d;
            }
        }
    }
    int W(int j) const
    {
        return ((j % nt) + nt) % nt;
    }
    size_t id(int i, int j) const
    {
        return (size_t)i * nt + W(j);
    }
    bool isDirichlet(int i) const
    {
        return i == nr - 1 || (i == 0 && dirbc);
    }
    // row of A at node (i,j): list of (i2, j2, coefficient)
    struct Entry {
        int i, j;
        LD v;
    };
    void row(int i, int j, std::vector<Entry>& out) const
    {
        out.clear();
        if (isDirichlet(i)) {
            out.push_back({i, j, 1.0L});
            return;
        }
        const LD k1 = (LD)g.theta(W(j - 1) + 1) - (LD)g.theta(W(j - 1));
        const LD k2 = (LD)g.theta(j + 1) - (LD)g.theta(j);
        const LD h2 = (LD)g.radius(i + 1) - (LD)g.radius(i);
        LD h1;
        int li, lj; // "left" neighbour
        if (i > 0) {
            h1 = (LD)g.radius(i) - (LD)g.radius(i - 1);
            li = i - 1;
            lj = j;
        }
        else {
            h1 = 2.0L * (LD)g.radius(0);
            li = 0;
            lj = W(j + nt / 2);
        }
        LD center = 0.25L * (h1 + h2) * (k1 + k2) * beta[i] * fabsl(det[id(i, j)]);
        auto edge = [&](int i2, int j2, LD w, const std::vector<LD>& a) {
            LD cf = w * (a[id(i, j)] + a[id(i2, j2)]);
            out.push_back({i2, W(j2), -cf});
            center += cf;
        };
        edge(li, lj, 0.5L * (k1 + k2) / h1, arr);
        edge(i + 1, j, 0.5L * (k1 + k2) / h2, arr);
        edge(i, j - 1, 0.5L * (h1 + h2) / k1, att);
        edge(i, j + 1, 0.5L * (h1 + h2) / k2, att);
        // mixed derivative: corner nodes, each with the mean of art over the two adjacent edge neighbours
        const LD aL = art[id(li, lj)], aR = art[id(i + 1, j)], aB = art[id(i, j - 1)], aT = art[id(i, j + 1)];
        if (i > 0) {
            out.push_back({i - 1, W(j - 1), -0.25L * (aL + aB)});
            out.push_back({i - 1, W(j + 1), +0.25L * (aL + aT)});
        }
        out.push_back({i + 1, W(j - 1), +0.25L * (aR + aB)});
        out.push_back({i + 1, W(j + 1), -0.25L * (aR + aT)});
        out.push_back({i, j, center});
    }
    // y = A x and the per-row magnitude sum_j |a_ij||x_j| (for rounding bounds); vectors in grid index order
    void apply(const Vector<double>& x, std::vector<LD>& y, std::vector<LD>& mag) const
    {
        y.assign((size_t)nr * nt, 0);
        mag.assign((size_t)nr * nt, 0);
        std::vector<Entry> e;
        for (int i = 0; i < nr; i++)
            for (int j = 0; j < nt; j++) {
                row(i, j, e);
                LD s = 0, m = 0;
                for (auto& q : e) {
                    // merge duplicates implicitly: sums are linear
                    LD xv = x[g.index(q.i, q.j)];
                    s += q.v * xv;
                    m += fabsl(q.v) * fabsl(xv);
                }
                y[g.index(i, j)]   = s;
                mag[g.index(i, j)] = m;
            }
    }
    // rounding magnitude per row for an implementation that evaluates the stencil in double:
    //   sum_j |a_ij||x_j| + |a_ii| * max_{j in stencil} |x_j|   (the second term covers the absolute error of
    //   the mixed-derivative weights, which are differences of products of Jacobian entries)
    void applyMag(const Vector<double>& x, std::vector<LD>& y, std::vector<LD>& mag) const
    {
        y.assign((size_t)nr * nt, 0);
        mag.assign((size_t)nr * nt, 0);
        std::vector<Entry> e;
        for (int i = 0; i < nr; i++)
            for (int j = 0; j < nt; j++) {
                row(i, j, e);
                LD s = 0, m = 0, dia = 0, um = 0;
                for (auto& q : e) {
                    LD xv = x[g.index(q.i, q.j)];
                    s += q.v * xv;
                    m += fabsl(q.v) * fabsl(xv);
                    if (q.i == i && q.j == W(j))
                        dia = fabsl(q.v);
                    um = std::max(um, fabsl(xv));
                }
                y[g.index(i, j)]   = s;
                mag[g.index(i, j)] = m + dia * um;
            }
    }
    // dense matrix in grid index order (entries addressing the same node are added)
    DMat dense() const
    {
        DMat A(nr * nt);
        std::vector<Entry> e;
        for (int i = 0; i < nr; i++)
            for (int j = 0; j < nt; j++) {
                row(i, j, e);
                for (auto& q : e)
                    A(g.index(i, j), g.index(q.i, q.j)) += q.v;
            }
        return A;
    }
};

// Dense matrix of an implementation, column by column: A e_k = -(residual with zero rhs)
template <class ResidualOp>
DMat probeMatrix(const ResidualOp& op, const PolarGrid& g)
{
    const int n = g.numberOfNodes();
    DMat A(n);
    Vector<double> x(n), zero(n), res(n);
    for (int i = 0; i < n; i++) {
        x[i]    = 0.0;
        zero[i] = 0.0;
    }
    for (int k = 0; k < n; k++) {
        x[k] = 1.0;
        op.computeResidual(res, zero, x);
        for (int i = 0; i < n; i++)
            A(i, k) = -(LD)res[i];
        x[k] = 0.0;
    }
    return A;
}
