// Reference multigrid cycles and nested iteration, written against the operators of the solver's own levels
// (Level::smoothing / extrapolatedSmoothing / computeResidual / directSolveInPlace, Interpolation::apply*),
// with freshly allocated vectors at every depth: no role rotation of work buffers, so a buffer mix-up or a
// stale read in the private implementation shows up as a difference.
#pragma once
#include "access.h"
#include "LinearAlgebra/vector_operations.h"

struct RefCycle {
    GMGPolar& g;
    std::vector<Level>& L;
    Interpolation& I;
    int nlev, pre, post;
    bool fullGridSmoothing;

    explicit RefCycle(GMGPolar& solver)
        : g(solver)
        , L(GMGPolarVerifAccess::levels(solver))
        , I(GMGPolarVerifAccess::interpolation(solver))
        , nlev(GMGPolarVerifAccess::numberOfLevels(solver))
        , pre(solver.preSmoothingSteps())
        , post(solver.postSmoothingSteps())
        , fullGridSmoothing(GMGPolarVerifAccess::fullGridSmoothing(solver))
    {
    }
    static Vector<double> zeros(int n)
    {
        Vector<double> v(n);
        for (int i = 0; i < n; i++)
            v[i] = 0.0;
        return v;
    }
    int n(int d) const
    {
        return L[d].grid().numberOfNodes();
    }
    // type: 0 V, 1 W, 2 F.  One cycle for A_d x = rhs, in place on x.
    void cycle(int type, int d, Vector<double>& x, const Vector<double>& rhs)
    {
        Vector<double> tmp = zeros(n(d));
        for (int i = 0; i < pre; i++)
            L[d].smoothing(x, rhs, tmp);
        Vector<double> r = zeros(n(d));
        L[d].computeResidual(r, rhs, x);
        Vector<double> rc = zeros(n(d + 1));
        I.applyRestriction(L[d], L[d + 1], rc, r);
        Vector<double> e = zeros(n(d + 1));
        if (d + 1 == nlev - 1) {
            e = rc;
            L[d + 1].directSolveInPlace(e);
        }
        else {
            cycle(type, d + 1, e, rc);
            if (type == 1)
                cycle(1, d + 1, e, rc);
            if (type == 2)
                cycle(0, d + 1, e, rc);
        }
        Vector<double> pe = zeros(n(d));
        I.applyProlongation(L[d + 1], L[d], pe, e);
        add(x, pe);
        Vector<double> tmp2 = zeros(n(d));
        for (int i = 0; i < post; i++)
            L[d].smoothing(x, rhs, tmp2);
    }
    void smooth0(Vector<double>& x, const Vector<double>& rhs)
    {
        Vector<double> tmp = zeros(n(0));
        if (!fullGridSmoothing)
            L[0].extrapolatedSmoothing(x, rhs, tmp);
        else
            L[0].smoothing(x, rhs, tmp);
    }
    // implicitly extrapolated cycle on level 0; rhs1 is the discretised right-hand side of level 1
    void exCycle(int type, Vector<double>& x, const Vector<double>& rhs0, const Vector<double>& rhs1)
    {
        for (int i = 0; i < pre; i++)
            smooth0(x, rhs0);
        Vector<double> r = zeros(n(0));
        L[0].computeResidual(r, rhs0, x);
        Vector<double> rc = zeros(n(1));
        I.applyExtrapolatedRestriction(L[0], L[1], rc, r);
        Vector<double> xc = zeros(n(1));
        inject(0, xc, x);
        Vector<double> r1 = zeros(n(1));
        L[1].computeResidual(r1, rhs1, xc);
        linear_combination(rc, 4.0 / 3.0, r1, -1.0 / 3.0); // rc = 4/3 rc - 1/3 r1
        Vector<double> e = zeros(n(1));
        if (nlev == 2) {
            e = rc;
            L[1].directSolveInPlace(e);
        }
        else {
            cycle(type, 1, e, rc);
            if (type == 1)
                cycle(1, 1, e, rc);
            if (type == 2)
                cycle(0, 1, e, rc);
        }
        Vector<double> pe = zeros(n(0));
        I.applyExtrapolatedProlongation(L[1], L[0], pe, e);
        add(x, pe);
        for (int i = 0; i < post; i++)
            smooth0(x, rhs0);
    }
    // injection written here from the definition (coarse node (i,j) = fine node (2i,2j)), through the grids' index functions
    void inject(int d, Vector<double>& coarse, const Vector<double>& fine) const
    {
        const PolarGrid& fg = L[d].grid();
        const PolarGrid& cg = L[d + 1].grid();
        for (int i = 0; i < cg.nr(); i++)
            for (int j = 0; j < cg.ntheta(); j++)
                coarse[cg.index(i, j)] = fine[fg.index(2 * i, 2 * j)];
    }
    // The discretised right-hand sides of ALL levels, built here from the problem data with the solver's two per-level
    // routines (sample the source/boundary data on the finest level, inject node values down, discretise each level):
    // which levels setup() chose to equip with a right-hand side is exactly what the reference must not depend on.
    std::vector<Vector<double>> ownRhs()
    {
        std::vector<Vector<double>> f;
        for (int d = 0; d < nlev; d++)
            f.push_back(zeros(n(d)));
        GMGPolarVerifAccess::buildRhs(g, L[0], f[0]);
        for (int d = 0; d + 1 < nlev; d++)
            inject(d, f[d + 1], f[d]);
        for (int d = 0; d < nlev; d++)
            GMGPolarVerifAccess::discretizeRhs(g, L[d], f[d]);
        return f;
    }
    // nested iteration (full multigrid start-up): returns the starting approximation on level 0
    Vector<double> fmgStart(int fmgCycle, int fmgIts, bool extrapolated)
    {
        const std::vector<Vector<double>> F = ownRhs();
        Vector<double> x = F[nlev - 1];
        L[nlev - 1].directSolveInPlace(x);
        for (int lev = nlev - 1; lev > 0; lev--) {
            Vector<double> xf = zeros(n(lev - 1));
            I.applyFMGInterpolation(L[lev], L[lev - 1], xf, x);
            for (int it = 0; it < fmgIts; it++) {
                if (lev - 1 == 0 && extrapolated)
                    exCycle(fmgCycle, xf, F[0], F[1]);
                else
                    cycle(fmgCycle, lev - 1, xf, F[lev - 1]);
            }
            x = xf;
        }
        return x;
    }
};
