// Fine/coarse level pairs built by the harness for the grid-transfer properties (C08, C09).
#pragma once
#include "engine.h"
#include "problem.h"
#include "Interpolation/interpolation.h"
#include "dense.h"

struct LevelPair {
    std::unique_ptr<DomainGeometry> geometry;
    std::unique_ptr<DensityProfileCoefficients> coefficients;
    std::unique_ptr<Level> fine, coarse;
    std::vector<int> threads;
    std::unique_ptr<Interpolation> interp;

    // coarse_split_mode: 0 automatic (as coarseningGrid does), 1 explicit with `coarse_circles` circles
    // depth: level depth of the fine level (the coarse one has depth+1): the transfer operators are defined for any pair of
    // consecutive levels, not only for the two finest ones
    void build(const ProblemSpec& p, int nthreads, int coarse_split_mode, int coarse_circles, int depth = 0)
    {
        geometry     = p.makeGeometry();
        coefficients = p.makeCoefficients();
        auto fg      = p.makeGrid();
        std::unique_ptr<PolarGrid> cg;
        if (coarse_split_mode == 0)
            cg = std::make_unique<PolarGrid>(coarseningGrid(*fg));
        else {
            std::vector<double> cr, ca;
            for (int i = 0; i < fg->nr(); i += 2)
                cr.push_back(fg->radius(i));
            for (int j = 0; j <= fg->ntheta(); j += 2)
                ca.push_back(fg->theta(j));
            const int nc = std::max(0, std::min(coarse_circles, (int)cr.size()));
            double split = nc <= 0 ? 0.5 * cr[0] : (nc >= (int)cr.size() ? 2 * cr.back() : 0.5 * (cr[nc - 1] + cr[nc]));
            cg           = std::make_unique<PolarGrid>(cr, ca, split);
        }
        auto flc = std::make_unique<LevelCache>(*fg, *coefficients, *geometry, true, false);
        auto clc = std::make_unique<LevelCache>(*cg, *coefficients, *geometry, true, false);
        fine     = std::make_unique<Level>(depth, std::move(fg), std::move(flc), ExtrapolationType::NONE, false);
        coarse   = std::make_unique<Level>(depth + 1, std::move(cg), std::move(clc), ExtrapolationType::NONE, false);
        threads  = std::vector<int>(depth + 2, nthreads);
        interp   = std::make_unique<Interpolation>(threads, p.dirbc);
    }
};

// The transfer operators are functions of their arguments; the Interpolation object carries only the thread counts and the
// boundary mode. `warmUpOnEarlierPair` applies every operator of the object under test to ANOTHER level pair of the same
// depth and dimensions (the mirrored grid: spacings in reverse order) before the checks use it: nothing an earlier call
// saw may influence a later one.
inline void warmUpOnEarlierPair(const LevelPair& LP, const ProblemSpec& p, int nthreads, int depth)
{
    ProblemSpec q = p;
    const int nr = p.nr(), nt = p.ntheta();
    for (int i = 0; i < nr; i++)
        q.radii[i] = p.radii[0] + (p.radii[nr - 1] - p.radii[nr - 1 - i]);
    q.radii[0]      = p.radii[0];
    q.radii[nr - 1] = p.radii[nr - 1];
    for (int j = 0; j <= nt; j++)
        q.angles[j] = 2 * M_PI - p.angles[nt - j];
    q.angles[0]  = 0.0;
    q.angles[nt] = 2 * M_PI;
    // exact antipodal partners as the grid constructor demands
    for (int j = 0; j < nt / 2; j++)
        q.angles[nt / 2 + j] = q.angles[j] + M_PI;
    for (int i = 1; i < nr; i++)
        if (!(q.radii[i] > q.radii[i - 1]))
            return; // degenerate mirror (rounding): no warm-up
    q.split_mode = 0;
    LevelPair LQ;
    try {
        LQ.build(q, nthreads, 0, 0, depth);
    }
    catch (const std::exception&) {
        return;
    }
    const int nf = LQ.fine->grid().numberOfNodes(), nc = LQ.coarse->grid().numberOfNodes();
    Vector<double> xc(nc), xf(nf), yc(nc), yf(nf);
    for (int i = 0; i < nc; i++)
        xc[i] = 1.0 + 0.001 * i;
    for (int i = 0; i < nf; i++)
        xf[i] = 2.0 - 0.001 * i;
    const Interpolation& I = *LP.interp; // the object under test, applied to the other pair
    I.applyProlongation(*LQ.coarse, *LQ.fine, yf, xc);
    I.applyExtrapolatedProlongation(*LQ.coarse, *LQ.fine, yf, xc);
    I.applyFMGInterpolation(*LQ.coarse, *LQ.fine, yf, xc);
    I.applyRestriction(*LQ.fine, *LQ.coarse, yc, xf);
    I.applyExtrapolatedRestriction(*LQ.fine, *LQ.coarse, yc, xf);
    I.applyInjection(*LQ.fine, *LQ.coarse, yc, xf);
}

inline bool isMidpointR(const PolarGrid& g, int i)
{
    if (i <= 0 || i >= g.nr() - 1)
        return true;
    const double h1 = g.radius(i) - g.radius(i - 1), h2 = g.radius(i + 1) - g.radius(i);
    return std::fabs(h1 - h2) <= 64 * 2.2e-16 * g.radius(i + 1);
}
inline bool isMidpointT(const PolarGrid& g, int j)
{
    const int nt    = g.ntheta();
    const double k1 = g.angularSpacing(j - 1), k2 = g.angularSpacing(j);
    (void)nt;
    return std::fabs(k1 - k2) <= 64 * 2.2e-16 * 2 * M_PI;
}
