// Fine/coarse level pairs built by the harness for the grid-transfer properties (C08, C09).
#pragma once
#include "engine.h"
#include "problem.h"
#include "Interpolation/interpolation.h"
#include "dense.h"

struct LevelPair {
    std::unique_ptr<DomainGeometry> geometry;
    std::unique_ptr<DensityProfileCoefficients> coefficients;
    std::unique_ptr<Level> fine, coarse;
    std::vector<int> threads;
    std::unique_ptr<Interpolation> interp;

    // coarse_split_mode: 0 automatic (as coarseningGrid does), 1 explicit with `coarse_circles` circles
    // depth: level depth of the fine level (the coarse one has depth+1): the transfer operators are defined for any pair of
    // consecutive levels, not only for the two finest ones
    void build(const ProblemSpec& p, int nthreads, int coarse_split_mode, int coarse_circles, int depth = 0)
    {
        geometry     = p.makeGeometry();
        coefficients = p.makeCoefficients();
        auto fg      = p.makeGrid();
        std::unique_ptr<PolarGrid> cg;
        if (coarse_split_mode == 0)
            cg = std::make_unique<PolarGrid>(coarseningGrid(*fg));
        else {
            std::vector<double> cr, ca;
            for (int i = 0; i < fg->nr(); i += 2)
                cr.push_back(fg->radius(i));
            for (int j = 0; j <= fg->ntheta(); j += 2)
                ca.push_back(fg->theta(j));
            const int nc = std::max(0, std::min(coarse_circles, (int)cr.size()));
            double split = nc <= 0 ? 0.5 * cr[0] : (nc >= (int)cr.size() ? 2 * cr.back() : 0.5 * (cr[nc - 1] + cr[nc]));
            cg           = std::make_unique<PolarGrid>(cr, ca, split);
        }
        auto flc = std::make_unique<LevelCache>(*fg, *coefficients, *geometry, true, false);
        auto clc = std::make_unique<LevelCache>(*cg, *coefficients, *geometry, true, false);
        fine     = std::make_unique<Level>(depth, std::move(fg), std::move(flc), ExtrapolationType::NONE, false);
        coarse   = std::make_unique<Level>(depth + 1, std::move(cg), std::move(clc), ExtrapolationType::NONE, false);
        threads  = std::vector<int>(depth + 2, nthreads);
        interp   = std::make_unique<Interpolation>(threads, p.dirbc);
    }
};

inline bool isMidpointR(const PolarGrid& g, int i)
{
    if (i <= 0 || i >= g.nr() - 1)
        return true;
    const double h1 = g.radius(i) - g.radius(i - 1), h2 = g.radius(i + 1) - g.radius(i);
    return std::fabs(h1 - h2) <= 64 * 2.2e-16 * g.radius(i + 1);
}
inline bool isMidpointT(const PolarGrid& g, int j)
{
    const int nt    = g.ntheta();
    const double k1 = g.angularSpacing(j - 1), k2 = g.angularSpacing(j);
    (void)nt;
    return std::fabs(k1 - k2) <= 64 * 2.2e-16 * 2 * M_PI;
}
