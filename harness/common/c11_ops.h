// Operator drivers shared by C11 (run under ThreadSanitizer + Archer) and C12 (reproducibility):
// execute one operator on a generated problem with a given thread count and return its output vector(s).
#pragma once
#include "LinearAlgebra/symmetricTridiagonalSolver.h"
#include "engine.h"
#include "problem.h"
#include "transfer_common.h"
#include "solver_cfg.h"
#include "Smoother/SmootherGive/smootherGive.h"
#include "Smoother/SmootherTake/smootherTake.h"
#include "ExtrapolatedSmoother/ExtrapolatedSmootherGive/extrapolatedSmootherGive.h"
#include "ExtrapolatedSmoother/ExtrapolatedSmootherTake/extrapolatedSmootherTake.h"
#include "DirectSolver/DirectSolverGiveCustomLU/directSolverGiveCustomLU.h"
#include "DirectSolver/DirectSolverTakeCustomLU/directSolverTakeCustomLU.h"
#include "LinearAlgebra/vector_operations.h"

static const char* kOpNames11[] = {"residual_give", "residual_take", "smoother_give", "smoother_take", "exsmoother_give", "exsmoother_take",
                                   "directsolver_give", "directsolver_take", "levelcache", "transfers", "vector_kernels", "solve", "line_solvers"};
enum { OP11_RES_GIVE = 0, OP11_RES_TAKE, OP11_SM_GIVE, OP11_SM_TAKE, OP11_EXSM_GIVE, OP11_EXSM_TAKE, OP11_DS_GIVE, OP11_DS_TAKE,
       OP11_LEVELCACHE, OP11_TRANSFERS, OP11_KERNELS, OP11_SOLVE, OP11_LINESOLVERS, OP11_COUNT };

// Runs the operator; returns the concatenated outputs (a deterministic function of the case for a race-free code).
inline std::vector<double> runOp11Impl(const KV& c, int threads);
// nested=1: the whole operator is called from inside an enclosing parallel region (nested parallelism off, the default), so
// every region of the code under test gets a team of ONE although `threads` were requested: OpenMP never promises the
// requested team size, and the results must not depend on it
inline std::vector<double> runOp11(const KV& c, int threads)
{
    if (c.getI("nested", 0) == 0)
        return runOp11Impl(c, threads);
    std::vector<double> out;
    std::string err;
#pragma omp parallel num_threads(2)
    {
#pragma omp single
        {
            try {
                out = runOp11Impl(c, threads);
            }
            catch (const std::exception& e) {
                err = e.what();
            }
        }
    }
    if (!err.empty())
        throw std::runtime_error(err);
    return out;
}
inline std::vector<double> runOp11Impl(const KV& c, int threads)
{
    const int op = (int)c.getI("op");
    std::vector<double> out;
    auto append = [&](const Vector<double>& v) { out.insert(out.end(), v.begin(), v.end()); };
    if (op == OP11_SOLVE) {
        SolverCfg cfg = SolverCfg::get(c, "s_");
        cfg.threads   = threads;
        auto s        = cfg.make();
        s->setup();
        s->solve();
        append(s->solution());
        out.push_back((double)s->numberOfIterations());
        return out;
    }
    if (op == OP11_LINESOLVERS) {
        // the line solvers called from serial code with `threads` threads available, below and above the size at which
        // this code base switches kernels to OpenMP: a cyclic and a non-cyclic strictly diagonally dominant system
        const int n = (int)c.getI("kernel_n");
        omp_set_num_threads(threads);
        for (int cyc = 0; cyc < 2; cyc++) {
            Rnd r(c.getU("x_seed") + cyc);
            SymmetricTridiagonalSolver<double> S(n);
            S.is_cyclic(cyc == 1);
            for (int i = 0; i + 1 < n; i++)
                S.sub_diagonal(i) = r.uni(-1.0, 1.0);
            if (cyc)
                S.cyclic_corner_element() = r.uni(-1.0, 1.0);
            for (int i = 0; i < n; i++)
                S.main_diagonal(i) = 2.5 + r.uni(0.0, 1.0);
            std::vector<double> x(n), t1(n), t2(n);
            for (int k = 0; k < 2; k++) {
                for (int i = 0; i < n; i++)
                    x[i] = r.normal();
                S.solveInPlace(x.data(), t1.data(), cyc ? t2.data() : nullptr);
                out.insert(out.end(), x.begin(), x.end());
            }
        }
        return out;
    }
    if (op == OP11_KERNELS) {
        const int n = (int)c.getI("kernel_n");
        Rnd r(c.getU("x_seed"));
        Vector<double> x(n), y(n);
        for (int i = 0; i < n; i++) {
            x[i] = r.normal();
            y[i] = r.normal();
        }
        omp_set_num_threads(threads);
        out.push_back(dot_product(x, y));
        out.push_back(l1_norm(x));
        out.push_back(l2_norm_squared(x));
        out.push_back(infinity_norm(x));
        Vector<double> z = x;
        add(z, y);
        subtract(z, x);
        linear_combination(z, 2.0, y, -0.5);
        multiply(z, 3.0);
        append(z);
        assign(z, 1.25);
        append(z);
        Vector<double> w(z); // parallel copy constructor
        w = x;               // parallel copy assignment
        append(w);
        return out;
    }
    ProblemSpec p = ProblemSpec::get(c);
    if (op == OP11_TRANSFERS) {
        LevelPair LP;
        LP.build(p, threads, 0, 0);
        const PolarGrid& fg = LP.fine->grid();
        const PolarGrid& cg = LP.coarse->grid();
        Vector<double> xc = makeVector(cg, 0, c.getU("x_seed")), xf = makeVector(fg, 0, c.getU("x_seed") + 1);
        Vector<double> rf(fg.numberOfNodes()), rc(cg.numberOfNodes());
        const Interpolation& I = *LP.interp;
        I.applyProlongation(*LP.coarse, *LP.fine, rf, xc);
        append(rf);
        I.applyExtrapolatedProlongation(*LP.coarse, *LP.fine, rf, xc);
        append(rf);
        I.applyFMGInterpolation(*LP.coarse, *LP.fine, rf, xc);
        append(rf);
        I.applyRestriction(*LP.fine, *LP.coarse, rc, xf);
        append(rc);
        I.applyExtrapolatedRestriction(*LP.fine, *LP.coarse, rc, xf);
        append(rc);
        I.applyInjection(*LP.fine, *LP.coarse, rc, xf);
        append(rc);
        I.applyProlongation0(*LP.coarse, *LP.fine, rf, xc);
        append(rf);
        I.applyRestriction0(*LP.fine, *LP.coarse, rc, xf);
        append(rc);
        return out;
    }
    omp_set_num_threads(threads);
    Hierarchy H;
    const bool cc = c.getI("cache_coef", 1) != 0, cgm = c.getI("cache_geom", 1) != 0;
    const bool needCached = op == OP11_RES_TAKE || op == OP11_SM_TAKE || op == OP11_EXSM_TAKE || op == OP11_DS_TAKE;
    H.build(p, needCached ? true : cc, needCached ? true : cgm, op == OP11_LEVELCACHE ? 1 : 0);
    const Level& lev   = *H.levels[0];
    const PolarGrid& g = lev.grid();
    const int n        = g.numberOfNodes();
    Vector<double> x = makeVector(g, 0, c.getU("x_seed")), f = makeVector(g, 0, c.getU("x_seed") + 5), res(n), tmp(n);
    switch (op) {
    case OP11_RES_GIVE: {
        ResidualGive o(g, lev.levelCache(), *H.geometry, *H.coefficients, p.dirbc, threads);
        o.computeResidual(res, f, x);
        append(res);
        break;
    }
    case OP11_RES_TAKE: {
        ResidualTake o(g, lev.levelCache(), *H.geometry, *H.coefficients, p.dirbc, threads);
        o.computeResidual(res, f, x);
        append(res);
        break;
    }
    case OP11_SM_GIVE: {
        SmootherGive o(g, lev.levelCache(), *H.geometry, *H.coefficients, p.dirbc, threads);
        omp_set_num_threads(threads);
        o.smoothing(x, f, tmp);
        o.smoothing(x, f, tmp);
        append(x);
        break;
    }
    case OP11_SM_TAKE: {
        SmootherTake o(g, lev.levelCache(), *H.geometry, *H.coefficients, p.dirbc, threads);
        omp_set_num_threads(threads);
        o.smoothing(x, f, tmp);
        o.smoothing(x, f, tmp);
        append(x);
        break;
    }
    case OP11_EXSM_GIVE: {
        ExtrapolatedSmootherGive o(g, lev.levelCache(), *H.geometry, *H.coefficients, p.dirbc, threads);
        omp_set_num_threads(threads);
        o.extrapolatedSmoothing(x, f, tmp);
        o.extrapolatedSmoothing(x, f, tmp);
        append(x);
        break;
    }
    case OP11_EXSM_TAKE: {
        ExtrapolatedSmootherTake o(g, lev.levelCache(), *H.geometry, *H.coefficients, p.dirbc, threads);
        omp_set_num_threads(threads);
        o.extrapolatedSmoothing(x, f, tmp);
        o.extrapolatedSmoothing(x, f, tmp);
        append(x);
        break;
    }
    case OP11_DS_GIVE: {
        DirectSolverGiveCustomLU o(g, lev.levelCache(), *H.geometry, *H.coefficients, p.dirbc, threads);
        o.solveInPlace(f);
        append(f);
        break;
    }
    case OP11_DS_TAKE: {
        DirectSolverTakeCustomLU o(g, lev.levelCache(), *H.geometry, *H.coefficients, p.dirbc, threads);
        o.solveInPlace(f);
        append(f);
        break;
    }
    case OP11_LEVELCACHE: {
        for (auto& L : H.levels) {
            const LevelCache& lc = L->levelCache();
            out.insert(out.end(), lc.sin_theta().begin(), lc.sin_theta().end());
            out.insert(out.end(), lc.coeff_beta().begin(), lc.coeff_beta().end());
            append(lc.arr());
            append(lc.att());
            append(lc.art());
            append(lc.detDF());
        }
        break;
    }
    }
    return out;
}

#ifndef VERIF_NO_RAPIDCHECK
// shape classes that decide which colour phase a line falls in
inline KV genCase11(bool forTsan)
{
    KV c;
    const int op = rweighted({4, 2, 4, 4, 4, 4, 3, 3, 2, 2, 2, 3, 1});
    c.putI("op", op);
    c.putI("nested", forTsan ? 0 : rweighted({5, 1}));
    c.putU("x_seed", rseed());
    if (op == OP11_SOLVE) {
        SolverCfg s;
        s.geometry = rint(0, 2);
        s.problem  = rint(0, 2);
        s.alpha    = rint(0, 3);
        s.beta     = rint(0, 1);
        genGeometryParams(s);
        s.R0         = s.Rmax * rpick({1e-5, 1e-2});
        s.nr_exp     = rint(3, forTsan ? 4 : 5);
        s.div        = rint(0, 1);
        s.dirbc      = rbool();
        s.fmg        = rbool();
        s.extrapolation = rint(0, 3);
        s.cycle      = rint(0, 2);
        s.strategy   = rint(0, 1);
        s.max_its    = forTsan ? 3 : 8;
        s.abs_tol    = 1e-10;
        s.rel_tol    = 1e-10;
        s.reduction  = rpick({1.0, 0.5, 0.3});
        // whole solves whose finest level (and, with nr_exp = 8, level 1 as well) lies above the 10 000-node threshold of
        // the `omp parallel if (n > 10'000)` kernels in the cycles, transfers and vector updates; few iterations
        if (rweighted({forTsan ? 4 : 5, 1}) == 1) {
            s.nr_exp    = forTsan ? 8 : rpick({7, 8});
            s.div       = 0;
            s.max_its   = forTsan ? 1 : 3;
            s.reduction = rpick({1.0, 1.0, 0.5});
            s.R0        = s.Rmax * 1e-2;
        }
        s.via_cli = rint(0, 1);
        if (!forTsan && s.nr_exp <= 5 && rint(0, 5) == 0) {
            s.grid_kind = rint(1, 5); // a grid loaded from files
            s.div       = 0;
        }
        s.put(c, "s_");
        return c;
    }
    if (op == OP11_KERNELS) {
        c.putI("kernel_n", rpick({0, 1, 7, 9999, 10000, 10001, 10001, 30000, 30000, 65536}));
        return c;
    }
    if (op == OP11_LINESOLVERS) {
        c.putI("kernel_n", rpick({2, 3, 64, 10000, 10001, 10001, 30000}));
        return c;
    }
    ProblemSpec p;
    if (op == OP11_TRANSFERS) {
        GridOpts go;
        go.coarsenable  = true;
        go.allow_culham = false;
        if (rbool()) { // above the 10000-node threshold of the parallel paths
            go.nr_min = 65;
            go.nr_max = 97;
            go.nt_min = 160;
            go.nt_max = 256;
        }
        else {
            go.nr_min = 5;
            go.nr_max = 33;
            go.nt_min = 8;
            go.nt_max = 48;
        }
        p = genProblem(go);
        p.split_mode = 0;
    }
    else if ((op <= OP11_EXSM_TAKE) && rint(0, 7) == 0) {
        // residuals and smoothers (construction = matrix assembly included) on a level above the 10000-node
        // threshold, where some of their regions switch to other loop structures; automatic line split
        GridOpts go;
        go.coarsenable  = true; // odd nr, ntheta % 4 == 0: admissible for every smoother
        go.allow_culham = false;
        go.nr_min       = 65; // 65 x 160..176: just above the threshold (the direct solvers' LU would take minutes under
        go.nr_max       = 65; // ThreadSanitizer; their assembly regions do not depend on the size)
        go.nt_min       = 160;
        go.nt_max       = 176;
        p               = genProblem(go);
        p.split_mode    = 0;
        c.putS("size_class", "above_10000_nodes");
    }
    else {
        // explicit shape classes: number of circles mod 2,3,4; ntheta mod 3,4; minimal sizes
        const bool smoother = op >= OP11_SM_GIVE && op <= OP11_EXSM_TAKE;
        const bool exsm     = op == OP11_EXSM_GIVE || op == OP11_EXSM_TAKE;
        int nt              = smoother ? rpick({4, 8, 12, 16, 20, 24, 28, 32, 40}) : rpick({4, 6, 8, 10, 12, 14, 16, 20, 24, 28, 32, 40});
        int nC              = smoother ? rint(exsm ? 3 : 2, 14) : rint(0, 14);
        int len             = smoother ? rint(3, 7) : rint(rint(0, 4) == 0 ? 0 : 2, 7);
        int nr              = nC + len;
        if (nr < 4)
            nr = 4;
        if (exsm && nr % 2 == 0)
            nr++;
        if (op == OP11_LEVELCACHE) {
            nr = 2 * rint(4, 10) + 1;
            nt = 4 * rint(2, 8);
        }
        p.Rmax         = 1.3;
        const double R0 = p.Rmax * rpick({1e-5, 1e-2, 0.1});
        p.radii        = genRadii(nr, rint(0, 2), R0, p.Rmax);
        p.angles       = genAngles(nt, nt % 4 == 0 ? rint(0, 2) : rint(0, 1));
        p.geom         = rint(0, 2);
        if (p.geom == 1) {
            p.gp1 = 0.3;
            p.gp2 = 0.2;
        }
        if (p.geom == 2) {
            p.gp1 = 0.3;
            p.gp2 = 1.4;
        }
        p.coef       = rint(0, 6);
        p.alpha_jump = 0.6 * p.Rmax;
        p.dirbc      = rbool();
        if (op != OP11_LEVELCACHE) {
            p.split_mode = 1;
            nC           = std::min(nC, nr - (smoother ? 3 : 0));
            p.split      = nC <= 0 ? 0.5 * p.radii[0] : (nC >= nr ? 2 * p.radii[nr - 1] : 0.5 * (p.radii[nC - 1] + p.radii[nC]));
        }
    }
    p.put(c);
    c.putI("cache_coef", rbool());
    c.putI("cache_geom", rbool());
    return c;
}
#endif
