// Friend accessor enabled by -DGMGPOLAR_VERIF (see the guarded hook in include/GMGPolar/gmgpolar.h).
#pragma once
#include "GMGPolar/gmgpolar.h"

struct GMGPolarVerifAccess {
    static std::vector<Level>& levels(GMGPolar& g)
    {
        return g.levels_;
    }
    static int numberOfLevels(const GMGPolar& g)
    {
        return g.number_of_levels_;
    }
    static const std::vector<int>& threadsPerLevel(const GMGPolar& g)
    {
        return g.threads_per_level_;
    }
    static Interpolation& interpolation(GMGPolar& g)
    {
        return *g.interpolation_;
    }
    static bool& fullGridSmoothing(GMGPolar& g)
    {
        return g.full_grid_smoothing_;
    }
    static int chooseNumberOfLevels(GMGPolar& g, const PolarGrid& grid)
    {
        return g.chooseNumberOfLevels(grid);
    }
    static PolarGrid createFinestGrid(GMGPolar& g)
    {
        return g.createFinestGrid();
    }
    static const DomainGeometry* geometry(const GMGPolar& g)
    {
        return g.domain_geometry_.get();
    }
    static const DensityProfileCoefficients* coefficients(const GMGPolar& g)
    {
        return g.density_profile_coefficients_.get();
    }
    static const BoundaryConditions* boundary(const GMGPolar& g)
    {
        return g.boundary_conditions_.get();
    }
    static const SourceTerm* source(const GMGPolar& g)
    {
        return g.source_term_.get();
    }
    static const ExactSolution* exact(const GMGPolar& g)
    {
        return g.exact_solution_.get();
    }
    static void initializeSolution(GMGPolar& g)
    {
        g.initializeSolution();
    }
    static const std::vector<double>& residualNorms(const GMGPolar& g)
    {
        return g.residual_norms_;
    }
    // cycle: 0 V, 1 W, 2 F; extrapolated selects the implicitly extrapolated variant
    static void cycle(GMGPolar& g, int cycle, bool extrapolated, int depth, Vector<double>& sol, Vector<double>& rhs,
                      Vector<double>& res)
    {
        if (!extrapolated) {
            if (cycle == 0)
                g.multigrid_V_Cycle(depth, sol, rhs, res);
            else if (cycle == 1)
                g.multigrid_W_Cycle(depth, sol, rhs, res);
            else
                g.multigrid_F_Cycle(depth, sol, rhs, res);
        }
        else {
            if (cycle == 0)
                g.implicitlyExtrapolatedMultigrid_V_Cycle(depth, sol, rhs, res);
            else if (cycle == 1)
                g.implicitlyExtrapolatedMultigrid_W_Cycle(depth, sol, rhs, res);
            else
                g.implicitlyExtrapolatedMultigrid_F_Cycle(depth, sol, rhs, res);
        }
    }
    static void buildRhs(GMGPolar& g, const Level& level, Vector<double>& rhs)
    {
        g.build_rhs_f(level, rhs);
    }
    static void discretizeRhs(GMGPolar& g, const Level& level, Vector<double>& rhs)
    {
        g.discretize_rhs_f(level, rhs);
    }
};
