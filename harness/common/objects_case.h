// C15 case: a history of {construct, set entry, solve, copy-construct, copy-assign, move-construct,
// move-assign, destroy, default-construct} over a pool of 4 slots of one linear-algebra class, checked
// after every step against a value-semantics model.
//   kind (0 Vector,1 COO,2 CSR,3 SparseLU,4 tridiagonal,5 cyclic tridiagonal,6 DiagonalSolver)
//   cmds = flat list of (op, a, b, arg) quadruples
// Commands that do not apply (empty slot, moved-from source ...) are skipped, so that removing commands
// while shrinking always leaves a valid history.
#pragma once
#include <omp.h>
#include "dense.h"
#include "engine.h"
#include "LinearAlgebra/vector.h"
#include "LinearAlgebra/coo_matrix.h"
#include "LinearAlgebra/csr_matrix.h"
#include "LinearAlgebra/sparseLUSolver.h"
#include "LinearAlgebra/symmetricTridiagonalSolver.h"
#include "LinearAlgebra/diagonalSolver.h"
#include <optional>

enum ObjOp { OP_CONSTRUCT = 0, OP_SET, OP_SOLVE, OP_COPY_CTOR, OP_COPY_ASSIGN, OP_MOVE_CTOR, OP_MOVE_ASSIGN, OP_DESTROY,
             OP_SELF_ASSIGN, OP_DEFAULT_CTOR, OP_SWAP, OP_CHAIN_ASSIGN, OP_PARALLEL_COPY, OP_SELF_MOVE, OP_COUNT };
static const char* kOpNames[] = {"construct", "set", "solve", "copy_ctor", "copy_assign", "move_ctor",
                                 "move_assign", "destroy", "self_assign", "default_ctor", "swap", "chain_assign", "parallel_copy", "self_move"};

static inline bool sameBits(double a, double b)
{
    return std::memcmp(&a, &b, sizeof a) == 0;
}

// ---------------------------------------------------------------- Vector
struct VecT {
    using Obj = Vector<double>;
    struct Model {
        std::vector<double> v;
        bool solved = false;
    };
    static const bool isSolver = false;
    static Model gen(int size, uint64_t seed)
    {
        Rnd r(seed);
        Model m;
        // mostly tiny; one in twenty-five above the size at which Vector switches its copies to OpenMP (n > 10'000), with
        // lengths that are not multiples of the team size (the machine runs with three threads, see runObjectsCase)
        m.v.resize(size % 25 == 7 ? 10001 + size % 7 : 1 + size % 12);
        for (auto& x : m.v)
            x = r.normal();
        return m;
    }
    static Model dflt()
    {
        return Model();
    }
    static std::unique_ptr<Obj> construct(const Model& m)
    {
        auto o = std::make_unique<Obj>((int)m.v.size());
        for (size_t i = 0; i < m.v.size(); i++)
            (*o)[(int)i] = m.v[i];
        return o;
    }
    static void set(Obj& o, Model& m, int idx, double val)
    {
        if (m.v.empty())
            return;
        idx        = idx % (int)m.v.size();
        o[idx]     = val;
        m.v[idx]   = val;
    }
    static bool solve(Obj&, Model&, uint64_t, std::string&)
    {
        return true;
    }
    static bool check(const Obj& o, const Model& m, std::string& why)
    {
        if (o.size() != (int)m.v.size()) {
            why = "size " + std::to_string(o.size()) + " != model " + std::to_string(m.v.size());
            return false;
        }
        if (o.end() - o.begin() != o.size()) {
            why = "begin/end range inconsistent with size";
            return false;
        }
        for (int i = 0; i < o.size(); i++)
            if (!sameBits(o[i], m.v[i])) {
                why = "entry " + std::to_string(i) + " differs from the model";
                return false;
            }
        return true;
    }
};

// ---------------------------------------------------------------- COO
struct CooT {
    using Obj = SparseMatrixCOO<double>;
    struct Model {
        int rows = 0, cols = 0;
        std::vector<std::tuple<int, int, double>> e;
        bool sym    = false;
        bool solved = false;
    };
    static const bool isSolver = false;
    static Model gen(int size, uint64_t seed)
    {
        Rnd r(seed);
        Model m;
        m.rows = 1 + size % 6;
        m.cols = 1 + (size / 6) % 6;
        int nnz = r.irange(0, m.rows * m.cols);
        for (int k = 0; k < nnz; k++)
            m.e.emplace_back(r.irange(0, m.rows - 1), r.irange(0, m.cols - 1), r.normal());
        m.sym = r.irange(0, 1);
        return m;
    }
    static Model dflt()
    {
        return Model();
    }
    static std::unique_ptr<Obj> construct(const Model& m)
    {
        std::unique_ptr<Obj> o;
        if (m.e.size() % 2 == 0)
            o = std::make_unique<Obj>(m.rows, m.cols, m.e);
        else {
            o = std::make_unique<Obj>(m.rows, m.cols, (int)m.e.size());
            for (size_t k = 0; k < m.e.size(); k++) {
                o->row_index((int)k) = std::get<0>(m.e[k]);
                o->col_index((int)k) = std::get<1>(m.e[k]);
                o->value((int)k)     = std::get<2>(m.e[k]);
            }
        }
        o->is_symmetric(m.sym);
        return o;
    }
    static void set(Obj& o, Model& m, int idx, double val)
    {
        if (m.e.empty()) {
            m.sym = !m.sym;
            o.is_symmetric(m.sym);
            return;
        }
        idx                    = idx % (int)m.e.size();
        o.value(idx)           = val;
        std::get<2>(m.e[idx])  = val;
    }
    static bool solve(Obj&, Model&, uint64_t, std::string&)
    {
        return true;
    }
    static bool check(const Obj& o, const Model& m, std::string& why)
    {
        if (o.rows() != m.rows || o.columns() != m.cols || o.non_zero_size() != (int)m.e.size()) {
            why = "shape/nnz differs from the model";
            return false;
        }
        if (o.is_symmetric() != m.sym) {
            why = "is_symmetric flag differs from the model";
            return false;
        }
        for (int k = 0; k < o.non_zero_size(); k++)
            if (o.row_index(k) != std::get<0>(m.e[k]) || o.col_index(k) != std::get<1>(m.e[k]) ||
                !sameBits(o.value(k), std::get<2>(m.e[k]))) {
                why = "triplet " + std::to_string(k) + " differs from the model";
                return false;
            }
        return true;
    }
};

// ---------------------------------------------------------------- CSR
struct CsrT {
    using Obj = SparseMatrixCSR<double>;
    struct Model {
        int rows = 0, cols = 0;
        std::vector<std::vector<std::pair<int, double>>> r;
        bool solved = false;
    };
    static const bool isSolver = false;
    static Model gen(int size, uint64_t seed)
    {
        Rnd r(seed);
        Model m;
        m.rows = 1 + size % 6;
        m.cols = 1 + (size / 6) % 6;
        m.r.resize(m.rows);
        for (int i = 0; i < m.rows; i++)
            for (int j = 0; j < m.cols; j++)
                if (r.irange(0, 2) == 0)
                    m.r[i].emplace_back(j, r.normal());
        return m;
    }
    static Model dflt()
    {
        return Model();
    }
    static std::unique_ptr<Obj> construct(const Model& m)
    {
        std::vector<std::tuple<int, int, double>> tr;
        for (int i = 0; i < m.rows; i++)
            for (auto& p : m.r[i])
                tr.emplace_back(i, p.first, p.second);
        if (tr.size() % 2 == 0)
            return std::make_unique<Obj>(m.rows, m.cols, tr);
        auto o = std::make_unique<Obj>(m.rows, m.cols, [&](int i) { return (int)m.r[i].size(); });
        for (int i = 0; i < m.rows; i++)
            for (size_t k = 0; k < m.r[i].size(); k++) {
                o->row_nz_index(i, (int)k) = m.r[i][k].first;
                o->row_nz_entry(i, (int)k) = m.r[i][k].second;
            }
        return o;
    }
    static void set(Obj& o, Model& m, int idx, double val)
    {
        if (m.rows == 0)
            return;
        int i = idx % m.rows;
        if (m.r[i].empty())
            return;
        int k                 = (idx / m.rows) % (int)m.r[i].size();
        o.row_nz_entry(i, k)  = val;
        m.r[i][k].second      = val;
    }
    static bool solve(Obj&, Model&, uint64_t, std::string&)
    {
        return true;
    }
    static bool check(const Obj& o, const Model& m, std::string& why)
    {
        int nnz = 0;
        for (auto& row : m.r)
            nnz += (int)row.size();
        if (o.rows() != m.rows || o.columns() != m.cols || o.non_zero_size() != nnz) {
            why = "shape/nnz differs from the model";
            return false;
        }
        for (int i = 0; i < m.rows; i++) {
            if (o.row_nz_size(i) != (int)m.r[i].size()) {
                why = "row size differs in row " + std::to_string(i);
                return false;
            }
            for (size_t k = 0; k < m.r[i].size(); k++)
                if (o.row_nz_index(i, (int)k) != m.r[i][k].first || !sameBits(o.row_nz_entry(i, (int)k), m.r[i][k].second)) {
                    why = "entry differs in row " + std::to_string(i);
                    return false;
                }
        }
        return true;
    }
};

// ---------------------------------------------------------------- shared by the solver kinds
inline std::vector<double> probeRhs(int n, uint64_t seed)
{
    Rnd r(seed * 31 + 7);
    std::vector<double> b(n);
    for (auto& x : b)
        x = r.normal();
    return b;
}
inline bool closeToRef(const std::vector<double>& x, const std::vector<LD>& xr, std::string& why)
{
    LD nrm = 0, err = 0;
    for (size_t i = 0; i < x.size(); i++) {
        if (!std::isfinite(x[i])) {
            why = "solution not finite";
            return false;
        }
        nrm = std::max(nrm, fabsl(xr[i]));
        err = std::max(err, fabsl((LD)x[i] - xr[i]));
    }
    if (err > 1e-10L * (nrm + 1e-300L)) {
        char buf[160];
        snprintf(buf, sizeof buf, "solve differs from the model's system: |x-x_ref|=%.3Le, |x_ref|=%.3Le", err, nrm);
        why = buf;
        return false;
    }
    return true;
}

// ---------------------------------------------------------------- SparseLUSolver
struct LuT {
    using Obj = SparseLUSolver<double>;
    struct Model {
        int n = 0;
        std::vector<std::vector<double>> A;
        bool solved = false;
    };
    static const bool isSolver = true;
    static Model gen(int size, uint64_t seed)
    {
        Rnd r(seed);
        Model m;
        m.n = 1 + size % 8;
        m.A.assign(m.n, std::vector<double>(m.n, 0.0));
        for (int i = 0; i < m.n; i++) {
            double s = 0;
            for (int j = 0; j < m.n; j++)
                if (j != i && r.irange(0, 1)) {
                    m.A[i][j] = r.uni(-1, 1);
                    s += std::fabs(m.A[i][j]);
                }
            m.A[i][i] = s + r.uni(0.5, 2.0);
        }
        return m;
    }
    static Model dflt()
    {
        return Model();
    }
    static std::unique_ptr<Obj> construct(const Model& m)
    {
        std::vector<std::tuple<int, int, double>> tr;
        for (int i = 0; i < m.n; i++)
            for (int j = 0; j < m.n; j++)
                if (m.A[i][j] != 0.0)
                    tr.emplace_back(i, j, m.A[i][j]);
        SparseMatrixCSR<double> M(m.n, m.n, tr);
        return std::make_unique<Obj>(M);
    }
    static void set(Obj&, Model&, int, double)
    {
    }
    static bool solve(Obj& o, Model& m, uint64_t seed, std::string& why)
    {
        if (m.n == 0)
            return true; // a default-constructed solver has nothing to solve
        auto b = probeRhs(m.n, seed);
        auto x = b;
        o.solveInPlace(x.data());
        DMat A(m.n);
        for (int i = 0; i < m.n; i++)
            for (int j = 0; j < m.n; j++)
                A(i, j) = m.A[i][j];
        std::vector<LD> bl(b.begin(), b.end());
        m.solved = true;
        return closeToRef(x, DenseLU(A).solve(bl), why);
    }
    static bool check(const Obj&, const Model&, std::string&)
    {
        return true; // observable only through solve
    }
};

// ---------------------------------------------------------------- SymmetricTridiagonalSolver
template <bool CYCLIC>
struct TriT {
    using Obj = SymmetricTridiagonalSolver<double>;
    struct Model {
        int n = 0;
        std::vector<double> mainD, sub;
        double corner = 0;
        bool cyclic   = true; // the default-constructed state
        bool solved   = false;
    };
    static const bool isSolver = true;
    static Model gen(int size, uint64_t seed)
    {
        Rnd r(seed);
        Model m;
        m.n      = 2 + size % 7;
        m.cyclic = CYCLIC;
        m.mainD.resize(m.n);
        m.sub.resize(m.n - 1);
        for (auto& s : m.sub)
            s = r.uni(-1, 1);
        m.corner = CYCLIC ? r.uni(-1, 1) : 0.0;
        for (int i = 0; i < m.n; i++) {
            double s = (i > 0 ? std::fabs(m.sub[i - 1]) : 0) + (i + 1 < m.n ? std::fabs(m.sub[i]) : 0);
            if (CYCLIC && (i == 0 || i == m.n - 1))
                s += std::fabs(m.corner);
            m.mainD[i] = s + r.uni(0.3, 2.0);
        }
        return m;
    }
    static Model dflt()
    {
        return Model();
    }
    static std::unique_ptr<Obj> construct(const Model& m)
    {
        auto o = std::make_unique<Obj>(m.n);
        o->is_cyclic(m.cyclic);
        for (int i = 0; i < m.n; i++)
            o->main_diagonal(i) = m.mainD[i];
        for (int i = 0; i + 1 < m.n; i++)
            o->sub_diagonal(i) = m.sub[i];
        if (m.cyclic)
            o->cyclic_corner_element() = m.corner;
        return o;
    }
    static void set(Obj& o, Model& m, int idx, double val)
    {
        // after a solve the stored data are factors: entry writes are only meaningful before
        if (m.solved || m.n == 0)
            return;
        if (idx % 4 == 3) {
            // switch between the cyclic and the open matrix: the corner element stays part of the object's state (an open
            // solver ignores it) and must be there again, on the object and on every copy of it, when the flag is set back
            m.cyclic = !m.cyclic;
            o.is_cyclic(m.cyclic);
            return;
        }
        idx = idx % m.n;
        // keep the system diagonally dominant: only increase a diagonal entry
        double v            = m.mainD[idx] + std::fabs(val);
        o.main_diagonal(idx) = v;
        m.mainD[idx]         = v;
    }
    static bool solve(Obj& o, Model& m, uint64_t seed, std::string& why)
    {
        if (m.n < 2)
            return true;
        auto b = probeRhs(m.n, seed);
        auto x = b;
        std::vector<double> t1(m.n, 1e300), t2(m.n, -1e300);
        o.solveInPlace(x.data(), t1.data(), m.cyclic ? t2.data() : nullptr);
        m.solved = true;
        DMat A(m.n);
        for (int i = 0; i < m.n; i++)
            A(i, i) = m.mainD[i];
        for (int i = 0; i + 1 < m.n; i++) {
            A(i, i + 1) += m.sub[i];
            A(i + 1, i) += m.sub[i];
        }
        if (m.cyclic) {
            A(0, m.n - 1) += m.corner;
            A(m.n - 1, 0) += m.corner;
        }
        std::vector<LD> bl(b.begin(), b.end());
        return closeToRef(x, DenseLU(A).solve(bl), why);
    }
    static bool check(const Obj& o, const Model& m, std::string& why)
    {
        if (o.rows() != m.n || o.columns() != m.n) {
            why = "dimension differs from the model";
            return false;
        }
        if (o.is_cyclic() != m.cyclic) {
            why = "is_cyclic flag differs from the model";
            return false;
        }
        if (m.solved)
            return true; // entries are factors now; observable only through solve
        for (int i = 0; i < m.n; i++)
            if (!sameBits(o.main_diagonal(i), m.mainD[i])) {
                why = "main diagonal entry differs from the model";
                return false;
            }
        for (int i = 0; i + 1 < m.n; i++)
            if (!sameBits(o.sub_diagonal(i), m.sub[i])) {
                why = "sub diagonal entry differs from the model";
                return false;
            }
        if (m.cyclic && !sameBits(o.cyclic_corner_element(), m.corner)) {
            why = "corner element differs from the model";
            return false;
        }
        return true;
    }
};

// ---------------------------------------------------------------- DiagonalSolver
struct DiagT {
    using Obj = DiagonalSolver<double>;
    struct Model {
        std::vector<double> d;
        bool solved = false;
    };
    static const bool isSolver = true;
    static Model gen(int size, uint64_t seed)
    {
        Rnd r(seed);
        Model m;
        m.d.resize(1 + size % 9);
        for (auto& x : m.d)
            x = (r.irange(0, 1) ? 1 : -1) * r.uni(0.1, 10);
        return m;
    }
    static Model dflt()
    {
        return Model();
    }
    static std::unique_ptr<Obj> construct(const Model& m)
    {
        auto o = std::make_unique<Obj>((int)m.d.size());
        for (size_t i = 0; i < m.d.size(); i++)
            o->diagonal((int)i) = m.d[i];
        return o;
    }
    static void set(Obj& o, Model& m, int idx, double val)
    {
        if (m.d.empty())
            return;
        idx           = idx % (int)m.d.size();
        double v      = val == 0.0 ? 1.0 : val;
        o.diagonal(idx) = v;
        m.d[idx]        = v;
    }
    static bool solve(Obj& o, Model& m, uint64_t seed, std::string& why)
    {
        if (m.d.empty())
            return true;
        auto b = probeRhs((int)m.d.size(), seed);
        auto x = b;
        o.solveInPlace(x.data());
        m.solved = true;
        for (size_t i = 0; i < x.size(); i++)
            if (!sameBits(x[i], b[i] / m.d[i])) {
                why = "diagonal solve entry is not b/d";
                return false;
            }
        return true;
    }
    static bool check(const Obj& o, const Model& m, std::string& why)
    {
        if (o.rows() != (int)m.d.size() || o.columns() != (int)m.d.size()) {
            why = "dimension differs from the model";
            return false;
        }
        for (size_t i = 0; i < m.d.size(); i++)
            if (!sameBits(o.diagonal((int)i), m.d[i])) {
                why = "diagonal entry differs from the model";
                return false;
            }
        return true;
    }
};

// ---------------------------------------------------------------- the machine
template <class T>
Outcome runMachine(const std::vector<int>& cmds, const std::string& kindName)
{
    Outcome o;
    const int NS = 4;
    std::unique_ptr<typename T::Obj> obj[NS];
    typename T::Model mod[NS];
    bool alive[NS] = {false, false, false, false}, moved[NS] = {false, false, false, false};
    bool dflt[NS]  = {false, false, false, false};
    bool copyAfterState = false, laterObserved = false, sawDefaultCopy = false;
    std::string opsSig;
    const int ncmd = (int)cmds.size() / 4;
    auto checkAll = [&](int step, const char* opn) -> bool {
        for (int s = 0; s < NS; s++) {
            if (!alive[s] || moved[s])
                continue;
            std::string why;
            if (!T::check(*obj[s], mod[s], why)) {
                o.fail("model_mismatch", kindName + ": after step " + std::to_string(step) + " (" + opn + ") slot " +
                                             std::to_string(s) + ": " + why);
                return false;
            }
        }
        return true;
    };
    for (int k = 0; k < ncmd; k++) {
        const int op = ((cmds[4 * k] % OP_COUNT) + OP_COUNT) % OP_COUNT;
        const int a = ((cmds[4 * k + 1] % NS) + NS) % NS, b = ((cmds[4 * k + 2] % NS) + NS) % NS;
        const int arg = cmds[4 * k + 3];
        bool applied  = false;
        switch (op) {
        case OP_CONSTRUCT:
            if (!alive[a]) {
                mod[a]   = T::gen(std::abs(arg), (uint64_t)std::abs(arg) * 2654435761u + k);
                obj[a]   = T::construct(mod[a]);
                alive[a] = true;
                moved[a] = dflt[a] = false;
                applied  = true;
            }
            break;
        case OP_DEFAULT_CTOR:
            if (!alive[a]) {
                mod[a]   = T::dflt();
                obj[a]   = std::make_unique<typename T::Obj>();
                alive[a] = true;
                moved[a] = false;
                dflt[a]  = true;
                applied  = true;
            }
            break;
        case OP_SET:
            if (alive[a] && !moved[a] && !dflt[a]) {
                T::set(*obj[a], mod[a], std::abs(arg), 0.25 * (arg % 17) + 0.5);
                applied = true;
            }
            break;
        case OP_SOLVE:
            if (alive[a] && !moved[a] && T::isSolver && !dflt[a]) {
                std::string why;
                if (!T::solve(*obj[a], mod[a], (uint64_t)std::abs(arg) + 1000 * k, why)) {
                    o.fail("solve_mismatch", kindName + ": step " + std::to_string(k) + " solve on slot " + std::to_string(a) + ": " + why);
                    return o;
                }
                applied = true;
                if (copyAfterState)
                    laterObserved = true;
            }
            break;
        case OP_COPY_CTOR:
            if (alive[a] && !moved[a] && !alive[b]) {
                if (dflt[a])
                    sawDefaultCopy = true;
                obj[b]   = std::make_unique<typename T::Obj>(*obj[a]);
                mod[b]   = mod[a];
                alive[b] = true;
                moved[b] = false;
                dflt[b]  = dflt[a];
                applied  = true;
                if (mod[a].solved || !T::isSolver)
                    copyAfterState = true;
            }
            break;
        case OP_COPY_ASSIGN:
            if (alive[a] && !moved[a] && alive[b] && a != b) {
                if (dflt[a])
                    sawDefaultCopy = true;
                *obj[b]  = *obj[a];
                mod[b]   = mod[a];
                moved[b] = false;
                dflt[b]  = dflt[a];
                applied  = true;
                if (mod[a].solved || !T::isSolver)
                    copyAfterState = true;
            }
            break;
        case OP_MOVE_CTOR:
            if (alive[a] && !moved[a] && !alive[b]) {
                obj[b]   = std::make_unique<typename T::Obj>(std::move(*obj[a]));
                mod[b]   = mod[a];
                alive[b] = true;
                moved[b] = false;
                dflt[b]  = dflt[a];
                moved[a] = true;
                applied  = true;
                if (mod[b].solved || !T::isSolver)
                    copyAfterState = true;
            }
            break;
        case OP_MOVE_ASSIGN:
            if (alive[a] && !moved[a] && alive[b] && a != b) {
                *obj[b]  = std::move(*obj[a]);
                mod[b]   = mod[a];
                moved[b] = false;
                dflt[b]  = dflt[a];
                moved[a] = true;
                applied  = true;
                if (mod[b].solved || !T::isSolver)
                    copyAfterState = true;
            }
            break;
        case OP_DESTROY:
            if (alive[a]) {
                obj[a].reset();
                alive[a] = moved[a] = dflt[a] = false;
                applied                       = true;
            }
            break;
        case OP_PARALLEL_COPY:
            // every thread of an active parallel region takes its own copy of one shared object (firstprivate-style copy
            // construction, and copy assignment onto a thread-local object of another size): each copy equals the source
            if (alive[a] && !moved[a] && !dflt[a]) {
                std::string firstWhy;
                int nbad = 0;
                const typename T::Obj& src = *obj[a];
                const typename T::Model& m = mod[a];
                const typename T::Model other = T::gen(std::abs(arg) + 3, (uint64_t)std::abs(arg) * 977u + 5);
#pragma omp parallel num_threads(3) reduction(+ : nbad)
                {
                    std::string why;
                    typename T::Obj mine(src);
                    bool ok = T::check(mine, m, why);
                    std::unique_ptr<typename T::Obj> local = T::construct(other);
                    *local = src;
                    ok = ok && T::check(*local, m, why);
                    if (!ok) {
                        nbad++;
#pragma omp critical
                        if (firstWhy.empty())
                            firstWhy = why;
                    }
                }
                if (nbad) {
                    o.fail("model_mismatch", kindName + ": after step " + std::to_string(k) + " (parallel_copy) slot " + std::to_string(a) + ": " +
                                                 std::to_string(nbad) + " of 3 threads got a copy that differs from the source: " + firstWhy);
                    return o;
                }
                applied = true;
                if (m.solved || !T::isSolver)
                    copyAfterState = true;
            }
            break;
        case OP_SWAP:
            // std::swap: one move construction and two move assignments
            if (alive[a] && !moved[a] && alive[b] && !moved[b] && a != b) {
                std::swap(*obj[a], *obj[b]);
                std::swap(mod[a], mod[b]);
                std::swap(dflt[a], dflt[b]);
                applied = true;
                if (mod[a].solved || mod[b].solved || !T::isSolver)
                    copyAfterState = true;
            }
            break;
        case OP_CHAIN_ASSIGN: {
            // c = b = a (the assignment operators return the target)
            const int cc = (a + 1 + std::abs(arg) % (NS - 1)) % NS;
            if (alive[a] && !moved[a] && alive[b] && alive[cc] && a != b && b != cc && a != cc) {
                if (dflt[a])
                    sawDefaultCopy = true;
                *obj[cc] = (*obj[b] = *obj[a]);
                mod[b] = mod[cc] = mod[a];
                moved[b] = moved[cc] = false;
                dflt[b] = dflt[cc] = dflt[a];
                applied            = true;
                if (mod[a].solved || !T::isSolver)
                    copyAfterState = true;
            }
            break;
        }
        case OP_SELF_ASSIGN:
            if (alive[a] && !moved[a]) {
                typename T::Obj& ref = *obj[a];
                *obj[a]              = ref;
                applied              = true;
            }
            break;
        case OP_SELF_MOVE:
            // x = std::move(x): source and target are one object, so "observationally equal to its source at the moment
            // of the operation" means unchanged (Vector and SparseLUSolver say so explicitly: "Handle self-assignment");
            // this is what std::swap(x, x) and in-place compaction loops execute
            if (alive[a] && !moved[a]) {
                typename T::Obj& ref = *obj[a];
                *obj[a]              = std::move(ref);
                applied              = true;
            }
            break;
        }
        if (applied) {
            opsSig += std::to_string(op);
            if (!T::isSolver && copyAfterState)
                laterObserved = true;
            if (!checkAll(k, kOpNames[op]))
                return o;
        }
    }
    // final observation: every live object solves once more
    if (T::isSolver)
        for (int s = 0; s < NS; s++)
            if (alive[s] && !moved[s] && !dflt[s]) {
                std::string why;
                if (!T::solve(*obj[s], mod[s], 77777 + s, why)) {
                    o.fail("solve_mismatch", kindName + ": final solve on slot " + std::to_string(s) + ": " + why);
                    return o;
                }
                if (copyAfterState)
                    laterObserved = true;
            }
    o.nontrivial = copyAfterState && laterObserved;
    o.signature  = kindName + ":" + opsSig;
    o.cls("kind_" + kindName);
    if (o.nontrivial)
        o.cls("copy_or_move_after_state_then_observed");
    if (sawDefaultCopy)
        o.cls("copied_default_constructed");
    return o;
}

inline Outcome runObjectsCase(const KV& c)
{
    const int kind = (int)c.getI("kind");
    auto cmds      = c.getVI("cmds");
    // copies of long vectors / matrices may use OpenMP: three threads (a team size that does not divide the lengths used)
    omp_set_num_threads(3);
    switch (kind) {
    case 0:
        return runMachine<VecT>(cmds, "Vector");
    case 1:
        return runMachine<CooT>(cmds, "COO");
    case 2:
        return runMachine<CsrT>(cmds, "CSR");
    case 3:
        return runMachine<LuT>(cmds, "SparseLU");
    case 4:
        return runMachine<TriT<false>>(cmds, "Tridiagonal");
    case 5:
        return runMachine<TriT<true>>(cmds, "CyclicTridiagonal");
    default:
        return runMachine<DiagT>(cmds, "Diagonal");
    }
}

#ifndef VERIF_NO_RAPIDCHECK
inline KV genObjectsCase()
{
    KV c;
    const int kind = rint(0, 6);
    // command list with whole-sequence shrinking (rapidcheck removes and simplifies elements)
    auto cmdGen = rc::gen::tuple(rc::gen::resize(rc::kNominalSize, rc::gen::weightedElement<int>({{4, OP_CONSTRUCT},
                                                                                                 {2, OP_SET},
                                                                                                 {5, OP_SOLVE},
                                                                                                 {3, OP_COPY_CTOR},
                                                                                                 {3, OP_COPY_ASSIGN},
                                                                                                 {3, OP_MOVE_CTOR},
                                                                                                 {3, OP_MOVE_ASSIGN},
                                                                                                 {2, OP_DESTROY},
                                                                                                 {1, OP_SELF_ASSIGN},
                                                                                                 {1, OP_DEFAULT_CTOR},
                                                                                                 {2, OP_SWAP},
                                                                                                 {1, OP_CHAIN_ASSIGN},
                                                                                                 {1, OP_PARALLEL_COPY},
                                                                                                 {1, OP_SELF_MOVE}})),
                                 rc::gen::resize(rc::kNominalSize, rc::gen::inRange(0, 4)),
                                 rc::gen::resize(rc::kNominalSize, rc::gen::inRange(0, 4)),
                                 rc::gen::resize(rc::kNominalSize, rc::gen::inRange(0, 1000)));
    // variable length (up to ~30), shrinks by dropping commands
    auto seq = *rc::gen::resize(30, rc::gen::container<std::vector<std::tuple<int, int, int, int>>>(cmdGen));
    std::vector<int> flat;
    for (auto& t : seq) {
        flat.push_back(std::get<0>(t));
        flat.push_back(std::get<1>(t));
        flat.push_back(std::get<2>(t));
        flat.push_back(std::get<3>(t));
    }
    c.putI("kind", kind);
    c.putVI("cmds", flat);
    return c;
}
#endif
