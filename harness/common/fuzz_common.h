// Shared by the libFuzzer targets: on an oracle failure write the decoded case where the
// driver can find it, then trap (a trap skips atexit, so everything is flushed first).
#pragma once
#include "engine.h"

inline void fuzzJudge(const KV& c, const Outcome& o)
{
    if (o.ok)
        return;
    const char* p = getenv("VERIF_FUZZ_FAILCASE");
    KV f          = c;
    f.putS("fail_oracle", o.oracle);
    f.putS("fail_msg", o.msg);
    if (p)
        f.save(p);
    fprintf(stderr, "ORACLE FAILURE %s: %s\n%s\n", o.oracle.c_str(), o.msg.c_str(), c.text().c_str());
    fflush(stderr);
    __builtin_trap();
}
