// C20 case and oracles (shared by the rapidcheck harness and the libFuzzer target f20).
#pragma once
#include <sys/stat.h>
#include <unistd.h>
#include "engine.h"
#include "indep.h"
#include <fstream>
#include <sys/wait.h>
#include <fcntl.h>
#include <new>

// ------------------------------------------------------------------------------------------------- API part
inline void __attribute__((noinline)) scribbleStack(unsigned char pattern)
{
    volatile unsigned char buf[96 * 1024];
    for (size_t i = 0; i < sizeof buf; i++)
        buf[i] = pattern;
    asm volatile("" ::: "memory");
}

struct RunResult {
    bool threw = false;
    std::string what;
    int its = -1;
    double rho = 0;
    bool hasErr = false;
    double e2 = 0, einf = 0;
    bool finite = true;
    std::vector<double> resNorms;
    Vector<double> sol;
    int nr = 0, nt = 0;
};

// the object lives in storage pre-filled with `pattern`, the stack below the calls is pre-filled with it too:
// any statistic that depends on an uninitialised member or local differs between two patterns
inline RunResult runApi(const SolverCfg& cfg, int gridFile, const std::string& fr, const std::string& ft, unsigned char pattern, int verbosity = 0,
                        int paraview = 0, int writeGrid = 0, int poison = 0)
{
    RunResult r;
    void* raw = ::operator new(sizeof(GMGPolar));
    std::memset(raw, pattern, sizeof(GMGPolar));
    GMGPolar* s = nullptr;
    try {
        scribbleStack(pattern);
        s = new (raw) GMGPolar();
    }
    catch (const std::exception& e) {
        ::operator delete(raw);
        r.threw = true;
        r.what  = e.what();
        return r;
    }
    try {
        if (poison == 1 || poison == 2) {
            // the same object first receives a combination that setup() must reject; the exception is caught and the real
            // configuration applied afterwards: a rejected call must leave nothing behind (the two runs of a record are
            // compared bit for bit)
            cfg.select(*s);
            cfg.applyOptions(*s);
            if (poison == 1) {
                s->stencilDistributionMethod(StencilDistributionMethod::CPU_TAKE);
                s->cacheDomainGeometry(false);
            }
            else
                s->maxLevels(1);
            try {
                s->setup();
            }
            catch (const std::exception&) {
            }
        }
        if (cfg.via_cli) {
            std::vector<std::string> a = cfg.argvAll();
            std::vector<char*> argv;
            for (auto& x : a)
                argv.push_back(const_cast<char*>(x.c_str()));
            s->setParameters((int)argv.size(), argv.data());
        }
        else {
            cfg.select(*s);
            cfg.applyOptions(*s);
        }
        if (gridFile) {
            s->load_grid_file(true);
            s->file_grid_radii(fr);
            s->file_grid_angles(ft);
        }
        else if (writeGrid) {
            // the solver writes its finest grid to the two files during setup()
            s->write_grid_file(true);
            s->file_grid_radii(fr);
            s->file_grid_angles(ft);
        }
        // output options: VTK files of the grids, the solution and the error go to the current directory (a scratch
        // directory, see runApiCase); they must not change anything else
        s->paraview(paraview != 0);
        // 'verbose' is a diagnostic option: it must not change anything but the output (stdout is discarded meanwhile)
        s->verbose(verbosity);
        fflush(stdout);
        const int savedOut = verbosity > 0 ? dup(1) : -1;
        if (savedOut >= 0) {
            int nul = open("/dev/null", O_WRONLY);
            if (nul >= 0) {
                dup2(nul, 1);
                close(nul);
            }
        }
        struct Restore {
            int fd;
            ~Restore()
            {
                if (fd >= 0) {
                    std::cout.flush();
                    fflush(stdout);
                    dup2(fd, 1);
                    close(fd);
                }
            }
        } restore{savedOut};
        scribbleStack(pattern);
        s->setup();
        if (poison == 3 || poison == 4) {
            // between a successful setup() and solve(): a setup() that is rejected (before it touches the hierarchy), the
            // offending option restored, then solve() - as if the rejected call had never happened
            const auto keepM = s->stencilDistributionMethod();
            const bool keepG = s->cacheDomainGeometry();
            const int keepL  = s->maxLevels();
            if (poison == 3) {
                s->stencilDistributionMethod(StencilDistributionMethod::CPU_TAKE);
                s->cacheDomainGeometry(false);
            }
            else
                s->maxLevels(1);
            bool rejected = false;
            try {
                s->setup();
            }
            catch (const std::exception&) {
                rejected = true;
            }
            s->stencilDistributionMethod(keepM);
            s->cacheDomainGeometry(keepG);
            s->maxLevels(keepL);
            if (!rejected)
                s->setup(); // (the must-reject oracle reports it; keep the object consistent)
        }
        scribbleStack(pattern);
        s->solve();
        r.its = s->numberOfIterations();
        // every statistic is read after every completed solve, whatever the options were (C20: "every statistic the API
        // reports afterwards ... is a well-defined function of that solve"); an optional without a value is a valid report
        r.rho = s->meanResidualReductionFactor();
        {
            auto a = s->exactErrorWeightedEuclidean();
            auto b = s->exactErrorInfinity();
            if (a.has_value() && b.has_value()) {
                r.hasErr = true;
                r.e2     = *a;
                r.einf   = *b;
            }
        }
        r.sol = s->solution();
        r.nr  = s->grid().nr();
        r.nt  = s->grid().ntheta();
        for (int i = 0; i < r.sol.size(); i++)
            if (!std::isfinite(r.sol[i]))
                r.finite = false;
        r.resNorms = GMGPolarVerifAccess::residualNorms(*s);
    }
    catch (const std::exception& e) {
        r.threw = true;
        r.what  = e.what();
    }
    s->~GMGPolar();
    ::operator delete(raw);
    return r;
}

inline std::string tmpBase()
{
    const char* t = getenv("TMPDIR");
    return std::string(t ? t : "/tmp") + "/verif_c20_" + std::to_string((long)getpid());
}

inline Outcome runApiCase(const KV& c)
{
    Outcome o;
    SolverCfg cfg      = SolverCfg::get(c);
    const int gridFile = (int)c.getI("grid_file", 0);
    o.cls("part_api");
    std::string fr = tmpBase() + "_r.txt", ft = tmpBase() + "_t.txt";
    if (gridFile) {
        // a grid from files: coarsenable (nr odd, ntheta%4==0) or not (kind 2); kinds 3-5 are coarsenable with a number of
        // angular divisions that is not a power of two (12 -> 6, 24 -> 12 -> 6, 20 -> 10): only grid files reach those
        static const int kNr[6] = {0, 9, 8, 9, 17, 9}, kNt[6] = {0, 16, 6, 12, 24, 20};
        const int nr = kNr[gridFile], nt = kNt[gridFile];
        std::ofstream a(fr), b(ft);
        a.precision(18);
        b.precision(18);
        for (int i = 0; i < nr; i++)
            a << std::fixed << cfg.R0 + (cfg.Rmax - cfg.R0) * i / (nr - 1) << "\n";
        for (int j = 0; j <= nt; j++)
            b << std::fixed << (j == nt ? 2 * M_PI : 2 * M_PI * j / nt) << "\n";
    }
    // scratch working directory (VTK output lands in the current directory)
    const int paraview2 = (int)c.getI("paraview2", 0), writeGrid = gridFile ? 0 : (int)c.getI("write_grid", 0);
    const std::string scratch = tmpBase() + "_d";
    char oldcwd[4096];
    const bool haveCwd = getcwd(oldcwd, sizeof oldcwd) != nullptr;
    if (paraview2) {
        mkdir(scratch.c_str(), 0700);
        if (chdir(scratch.c_str()) != 0)
            o.cls("scratch_dir_unavailable");
    }
    RunResult r1 = runApi(cfg, gridFile, fr, ft, 0x5a);
    // second run: other memory pattern, generated verbosity, and the output options switched on - none of them may
    // change a statistic or the solution
    RunResult r2 = runApi(cfg, gridFile, fr, ft, 0xc3, (int)c.getI("verbose2", 0), paraview2, writeGrid, (int)c.getI("poison2", 0));
    if (c.getI("poison2", 0))
        o.cls("reused_after_rejected_setup");
    if (paraview2) {
        if (!r2.threw && cfg.max_its >= 0) {
            struct stat st;
            if (stat((scratch + "/output_finest_grid.vtu").c_str(), &st) == 0 && st.st_size > 0)
                o.cls("vtk_written");
        }
        for (const char* f : {"output_finest_grid.vtu", "output_coarsest_grid.vtu", "output_solution.vtu", "output_error.vtu"})
            std::remove((scratch + "/" + f).c_str());
        if (haveCwd && chdir(oldcwd) != 0)
            o.cls("scratch_dir_unavailable");
        rmdir(scratch.c_str());
    }
    if (writeGrid && !r2.threw) {
        // what setup() wrote loads back as a grid of the same dimensions (the accuracy of the round trip is C18's subject)
        try {
            PolarGrid back(fr, ft);
            if (back.nr() != r2.nr || back.ntheta() != r2.nt) {
                o.fail("written_grid", "the grid files written by setup() load back with other dimensions");
                return o;
            }
            o.cls("grid_written_and_loaded");
        }
        catch (const std::exception& e) {
            if (cfg.R0 >= 1e-15 * cfg.Rmax) {
                o.fail("written_grid", std::string("the grid files written by setup() do not load back: ") + e.what());
                return o;
            }
        }
    }
    if (gridFile || writeGrid) {
        std::remove(fr.c_str());
        std::remove(ft.c_str());
    }
    const bool invalidEnum = cfg.cycle < 0 || cfg.cycle > 2 || cfg.fmg_cycle < 0 || cfg.fmg_cycle > 2 || cfg.extrapolation < 0 ||
                             cfg.extrapolation > 3 || cfg.norm < 0 || cfg.norm > 2 || cfg.strategy < 0 || cfg.strategy > 1;
    const bool tolOn = cfg.abs_tol > 0 || cfg.rel_tol > 0;
    o.signature  = "A" + cfg.sig() + "f" + std::to_string(gridFile);
    o.nontrivial = true;
    if (invalidEnum)
        o.cls("invalid_enum_value");
    if (!tolOn)
        o.cls("both_tolerances_disabled");
    if (cfg.pre == 0 && cfg.post == 0)
        o.cls("zero_smoothing");
    if (cfg.strategy == 0 && (!cfg.cache_coef || !cfg.cache_geom))
        o.cls("take_without_caches");
    if (r1.threw != r2.threw) {
        o.fail("nondeterministic_rejection", "the same configuration is rejected in one run and accepted in the other");
        return o;
    }
    if (r1.threw) {
        o.cls("rejected_by_exception");
        return o;
    }
    o.cls("ran_to_completion");
    // must-reject combinations
    if (cfg.strategy == 0 && (!cfg.cache_coef || !cfg.cache_geom)) {
        o.fail("not_rejected", "the take strategy without both caches was not rejected");
        return o;
    }
    if (gridFile == 2) {
        o.fail("not_rejected", "a non-coarsenable grid was not rejected");
        return o;
    }
    if (r1.its < 0 || r1.its > std::max(cfg.max_its, 0)) {
        o.fail("iterations_range", "numberOfIterations() = " + std::to_string(r1.its) + " outside [0, maxIterations=" + std::to_string(cfg.max_its) + "]");
        return o;
    }
    if (!tolOn && !invalidEnum && r1.its != std::max(cfg.max_its, 0)) {
        o.fail("iterations_disabled_tolerances", "with both tolerances disabled the solver performed " + std::to_string(r1.its) + " of " +
                                                     std::to_string(cfg.max_its) + " iterations");
        return o;
    }
    // statistics are a deterministic function of the solve: identical for both memory patterns
    if (r1.its != r2.its || std::memcmp(&r1.rho, &r2.rho, 8) != 0 || r1.hasErr != r2.hasErr ||
        (r1.hasErr && (std::memcmp(&r1.e2, &r2.e2, 8) != 0 || std::memcmp(&r1.einf, &r2.einf, 8) != 0))) {
        char buf[300];
        snprintf(buf, sizeof buf, "statistics depend on uninitialised memory or on the verbosity option: iterations %d/%d, mean reduction factor %.17g/%.17g, errors (%.6g,%.6g)/(%.6g,%.6g)",
                 r1.its, r2.its, r1.rho, r2.rho, r1.e2, r1.einf, r2.e2, r2.einf);
        o.fail("statistics_uninitialised", buf);
        return o;
    }
    if (r1.sol.size() != r2.sol.size() || std::memcmp(r1.sol.begin(), r2.sol.begin(), sizeof(double) * r1.sol.size()) != 0) {
        if (cfg.threads <= 2) {
            o.fail("solution_uninitialised", "the solution depends on uninitialised memory (differs between two memory patterns)");
            return o;
        }
    }
    const bool supported = !invalidEnum && cfg.pre >= 1 && cfg.post >= 1 && cfg.geometry != 3 && cfg.extrapolation != 2 && cfg.reduction > 0 &&
                           cfg.reduction <= 1;
    // (a divergent iteration outside the supported set may overflow: its factor is then inf, still a function of the solve)
    if (supported && r1.its > 0 && !std::isfinite(r1.rho)) {
        // a residual that reached exactly zero makes the factor 0 (finite); NaN/inf means undefined
        o.fail("reduction_factor_not_finite", "meanResidualReductionFactor() is not finite after " + std::to_string(r1.its) + " iterations");
        return o;
    }
    // inside C01's configuration set the solution is finite
    const bool inC01 = supported;
    if (inC01 && !r1.finite) {
        o.fail("solution_not_finite", "solution contains non-finite values for a supported configuration");
        return o;
    }
    // reported factor = (r_final/r_0)^(1/its) for the solve's own residual history when it stopped before the limit
    if (tolOn && r1.its > 0 && r1.its < cfg.max_its && !invalidEnum && (int)r1.resNorms.size() == r1.its + 1 && r1.resNorms.front() > 0) {
        const double expect = std::pow(r1.resNorms.back() / r1.resNorms.front(), 1.0 / r1.its);
        o.cls("factor_checked");
        if (std::fabs(expect - r1.rho) > 1e-9 * expect + 1e-300) {
            char buf[200];
            snprintf(buf, sizeof buf, "mean reduction factor %.12g but (r_final/r_0)^(1/its) = %.12g", r1.rho, expect);
            o.fail("reduction_factor_value", buf);
            return o;
        }
        // and the history itself is the independently recomputed one (first and last entry)
        if (inC01 && cfg.problem != 3 && !gridFile && r1.nr * r1.nt <= 40000) {
            IndepProblem ip(cfg);
            PolarGrid g(cfg.R0, cfg.Rmax, cfg.nr_exp, cfg.ntheta_exp, cfg.alpha_jump, cfg.aniso, cfg.div);
            const LD nrm = IndepProblem::norm(ip.stopResidual(g, r1.sol, cfg.extrapolation != 0), cfg.norm);
            // two evaluations of a residual agree up to the rounding level eps*|| |A||u| || of the operator application
            RefOp A(g, *ip.geo, *ip.co, ip.dirbc);
            std::vector<LD> Au, mag;
            A.apply(r1.sol, Au, mag);
            const LD floorN = 1e3L * 2.2e-16L * IndepProblem::norm(mag, cfg.norm);
            if (fabsl(nrm - (LD)r1.resNorms.back()) > 1e-6L * nrm + floorN) {
                char buf[200];
                snprintf(buf, sizeof buf, "last residual norm of the solve %.12g, independently recomputed %.12Lg", r1.resNorms.back(), nrm);
                o.fail("residual_history", buf);
                return o;
            }
            o.cls("residual_recomputed");
        }
    }
    return o;
}

// ------------------------------------------------------------------------------------------------- CLI part
inline Outcome runCliCase(const KV& c)
{
    Outcome o;
    o.cls("part_cli");
    std::vector<std::string> args;
    {
        std::string s = c.getS("argv"), cur;
        for (char ch : s) {
            if (ch == '\x1f') {
                args.push_back(cur);
                cur.clear();
            }
            else
                cur += ch;
        }
        if (!cur.empty() || s.empty())
            args.push_back(cur);
        if (s.empty())
            args.clear();
    }
    const char* root = getenv("VERIF_BUILD_ASAN");
    const std::string exe = std::string(root ? root : "/verif/build/asan") + "/gmgpolar_cli";
    std::string errFile   = tmpBase() + "_cli_err.txt";
    const std::string scratch = tmpBase() + "_cd";
    mkdir(scratch.c_str(), 0700);
    fflush(nullptr);
    pid_t pid = fork();
    if (pid == 0) {
        int fd = open(errFile.c_str(), O_WRONLY | O_CREAT | O_TRUNC, 0600);
        int nul = open("/dev/null", O_WRONLY);
        if (fd >= 0)
            dup2(fd, 2);
        if (nul >= 0)
            dup2(nul, 1);
        std::vector<char*> av;
        av.push_back(const_cast<char*>(exe.c_str()));
        for (auto& a : args)
            av.push_back(const_cast<char*>(a.c_str()));
        av.push_back(nullptr);
        // scratch working directory: VTK output and relative grid file names land there
        if (chdir(scratch.c_str()) != 0)
            _exit(126);
        setenv("OMP_NUM_THREADS", "2", 1);
        setenv("ASAN_OPTIONS", "detect_leaks=0:abort_on_error=1", 1);
        setenv("UBSAN_OPTIONS", "halt_on_error=1:print_stacktrace=1", 1);
        alarm(120);
        execv(exe.c_str(), av.data());
        _exit(127);
    }
    int status = 0;
    waitpid(pid, &status, 0);
    for (const char* f : {"output_finest_grid.vtu", "output_coarsest_grid.vtu", "output_solution.vtu", "output_error.vtu", "_r.txt", "_t.txt",
                          "radii_out.txt", "angles_out.txt"})
        std::remove((scratch + "/" + f).c_str());
    rmdir(scratch.c_str());
    std::string err;
    {
        std::ifstream f(errFile);
        err.assign((std::istreambuf_iterator<char>(f)), std::istreambuf_iterator<char>());
        std::remove(errFile.c_str());
    }
    o.signature  = "C" + std::to_string(fnv1a(c.getS("argv")));
    o.nontrivial = !args.empty();
    std::string shown;
    for (auto& a : args)
        shown += a + " ";
    if (WIFEXITED(status) && WEXITSTATUS(status) == 127) {
        o.fail("harness_exec", "could not execute " + exe);
        return o;
    }
    if (WIFSIGNALED(status)) {
        if (WTERMSIG(status) == SIGALRM) {
            o.inconclusive = true;
            o.cls("cli_timeout");
            return o;
        }
        const bool uncaught = err.find("terminate called") != std::string::npos;
        o.fail(uncaught ? "cli_uncaught_exception" : "cli_signal",
               "gmgpolar " + shown + ": terminated by signal " + std::to_string(WTERMSIG(status)) + (uncaught ? " (uncaught exception: " : " (") +
                   err.substr(0, 300) + ")");
        return o;
    }
    const int code = WEXITSTATUS(status);
    if (err.find("Sanitizer") != std::string::npos || err.find("runtime error:") != std::string::npos) {
        o.fail("cli_sanitizer", "gmgpolar " + shown + ": sanitizer report: " + err.substr(0, 400));
        return o;
    }
    if (code == 0)
        o.cls("cli_ran");
    else {
        o.cls("cli_rejected_status_" + std::to_string(code));
        if (err.empty()) {
            o.fail("cli_silent_rejection", "gmgpolar " + shown + ": exit status " + std::to_string(code) + " without a diagnostic on stderr");
            return o;
        }
    }
    // "no use of uninitialised data": ASan/UBSan do not see reads of uninitialised memory, and the two-pattern differential of
    // the API part cannot reach the parser's locals. The same command line is therefore run once more, uninstrumented (the
    // project's own flavour), under valgrind's memcheck, which reports every branch or system call that depends on an
    // uninitialised value (exit code 99).
    if (c.getI("memcheck", 1)) {
        const char* rroot       = getenv("VERIF_BUILD_REL");
        const std::string exeR  = std::string(rroot ? rroot : "/verif/build/rel") + "/gmgpolar_cli";
        const std::string vlog  = tmpBase() + "_vg.txt";
        const std::string scr2  = tmpBase() + "_cd2";
        mkdir(scr2.c_str(), 0700);
        fflush(nullptr);
        pid_t p2 = fork();
        if (p2 == 0) {
            int fd  = open(vlog.c_str(), O_WRONLY | O_CREAT | O_TRUNC, 0600);
            int nul = open("/dev/null", O_WRONLY);
            if (fd >= 0)
                dup2(fd, 2);
            if (nul >= 0)
                dup2(nul, 1);
            std::vector<char*> av;
            static const char* vg[] = {"valgrind", "-q", "--error-exitcode=99", "--undef-value-errors=yes", "--track-origins=no", "--leak-check=no"};
            for (const char* a : vg)
                av.push_back(const_cast<char*>(a));
            av.push_back(const_cast<char*>(exeR.c_str()));
            for (auto& a : args)
                av.push_back(const_cast<char*>(a.c_str()));
            av.push_back(nullptr);
            if (chdir(scr2.c_str()) != 0)
                _exit(126);
            setenv("OMP_NUM_THREADS", "1", 1);
            alarm(300);
            execvp("valgrind", av.data());
            _exit(127);
        }
        int st2 = 0;
        waitpid(p2, &st2, 0);
        for (const char* f : {"output_finest_grid.vtu", "output_coarsest_grid.vtu", "output_solution.vtu", "output_error.vtu", "_r.txt", "_t.txt",
                              "radii_out.txt", "angles_out.txt"})
            std::remove((scr2 + "/" + f).c_str());
        rmdir(scr2.c_str());
        std::string vout;
        {
            std::ifstream f(vlog);
            vout.assign((std::istreambuf_iterator<char>(f)), std::istreambuf_iterator<char>());
            std::remove(vlog.c_str());
        }
        if (WIFEXITED(st2) && WEXITSTATUS(st2) == 127) {
            o.fail("harness_exec", "could not execute valgrind");
            return o;
        }
        if (WIFSIGNALED(st2) && WTERMSIG(st2) == SIGALRM) {
            o.cls("cli_memcheck_timeout");
            return o;
        }
        o.cls("cli_memcheck_run");
        const size_t at = vout.find("uninitialised");
        if ((WIFEXITED(st2) && WEXITSTATUS(st2) == 99) || at != std::string::npos) {
            size_t b = vout.rfind("==", at == std::string::npos ? 0 : at);
            o.fail("cli_uninitialised_value", "gmgpolar " + shown + ": valgrind memcheck: " + vout.substr(b == std::string::npos ? 0 : b, 500));
            return o;
        }
    }
    return o;
}

inline Outcome runOptionsCase(const KV& c)
{
    return c.getS("part") == "api" ? runApiCase(c) : runCliCase(c);
}

#ifndef VERIF_NO_RAPIDCHECK
inline KV genOptionsCase()
{
    KV c;
    if (rint(0, 9) < 7) {
        c.putS("part", "api");
        SolverCfg s;
        s.geometry = rweighted({3, 3, 3, 1});
        s.problem  = s.geometry == 3 ? rint(2, 3) : (rint(0, 9) == 0 ? 3 : rint(0, 2));
        s.alpha    = (s.geometry == 3 || s.problem == 3) ? 3 : rint(0, 3);
        s.beta     = (s.geometry == 3 || s.problem == 3) ? 1 : rint(0, 1);
        genGeometryParams(s);
        s.R0         = s.Rmax * rpick({1e-8, 1e-5, 1e-3, 0.1});
        // the smallest grids that still give two levels, and a little above
        s.nr_exp     = rweighted({1, 2, 6, 3}) + 1; // 1..4
        s.ntheta_exp = rpick({-1, -1, 2, 3, 4, 6, 7}); // also far more angular than radial intervals (the automatic line split never fires)
        s.div        = rweighted({6, 2});
        s.aniso      = rweighted({8, 2, 1, 1});
        if (rint(0, 5) == 0) // refinement radius anywhere, also outside the domain (command-line default 0)
            s.alpha_jump = rpick({0.0, -1.0, 0.01, 5.0}) * s.Rmax;
        s.dirbc         = rbool();
        s.fmg           = rbool();
        s.fmg_its       = rint(0, 3);
        s.fmg_cycle     = rint(0, 29) == 0 ? rpick({-1, 3, 99}) : rint(0, 2);
        s.extrapolation = rint(0, 29) == 0 ? rpick({-1, 4, 17}) : rint(0, 3);
        s.max_levels    = rweighted({3, 1}) == 0 ? -1 : rint(0, 7);
        s.pre           = rint(0, 3);
        s.post          = rint(0, 3);
        s.cycle         = rint(0, 29) == 0 ? rpick({-1, 3, 42}) : rint(0, 2);
        s.max_its       = rweighted({1, 1}) == 0 ? rint(0, 5) : 150;
        s.norm          = rint(0, 29) == 0 ? rpick({-1, 3}) : rint(0, 2);
        s.abs_tol       = rpick({-1.0, -1.0, 1e-8, 1e-12});
        s.rel_tol       = rpick({-1.0, 1e-4, 1e-6, 1e-9});
        s.threads       = rpick({1, 2, 5});
        s.reduction     = rpick({1.0, 0.5, 0.3, 0.01});
        s.strategy      = rint(0, 29) == 0 ? rpick({-1, 2}) : rint(0, 1);
        s.cache_coef    = rint(0, 7) != 0;
        s.cache_geom    = rint(0, 7) != 0;
        // the whole record through setParameters(argc, argv) as src/main.cpp does - only records the parser accepts (an
        // out-of-range value makes the command-line parser print the usage text and exit(), which is its contract)
        {
            auto in = [](int v, int lo, int hi) { return v >= lo && v <= hi; };
            const bool parserAccepts = in(s.cycle, 0, 2) && in(s.fmg_cycle, 0, 2) && in(s.extrapolation, 0, 3) && in(s.norm, 0, 2) && in(s.strategy, 0, 1) &&
                                       s.nr_exp >= 1;
            s.via_cli = parserAccepts ? rint(0, 1) : 0;
        }
        s.put(c);
        c.putI("grid_file", rweighted({8, 1, 1, 1, 1, 1}));
        c.putI("verbose2", rweighted({1, 1, 1})); // verbosity of the second run (the first one is silent)
        c.putI("paraview2", rweighted({3, 1}));
        c.putI("poison2", rweighted({6, 1, 1, 1, 1}));
        c.putI("write_grid", rweighted({4, 1}));
    }
    else {
        c.putS("part", "cli");
        struct Opt {
            const char* name;
            std::vector<std::string> good, bad;
        };
        static const std::vector<Opt> opts = {
            {"--nr_exp", {"2", "3", "4"}, {"0", "-3", "x", "1e3", ""}},
            {"--ntheta_exp", {"-1", "3", "4", "6", "7"}, {"abc", "0"}},
            {"--anisotropic_factor", {"0", "1", "2"}, {"-1", "9", "q"}},
            {"--divideBy2", {"0", "1"}, {"-1", "z"}},
            {"--R0", {"1e-5", "0.1", "1e-8"}, {"0", "-1", "2.0", "r"}},
            {"--Rmax", {"1.3", "1.0"}, {"0", "-1"}},
            {"--DirBC_Interior", {"0", "1"}, {"2", "-1", "yes"}},
            {"--geometry", {"0", "1", "2", "3"}, {"4", "-1", "7", "circle"}},
            {"--problem", {"0", "1", "2", "3"}, {"4", "-1"}},
            {"--alpha_coeff", {"0", "1", "2", "3"}, {"4", "-2"}},
            {"--beta_coeff", {"0", "1"}, {"2", "-1"}},
            {"--alpha_jump", {"0.5", "0.66", "0.9"}, {"0", "-1", "5"}},
            {"--kappa_eps", {"0.3", "0.0"}, {"x"}},
            {"--delta_e", {"0.2", "1.4"}, {"y"}},
            {"--FMG", {"0", "1"}, {"2"}},
            {"--FMG_iterations", {"0", "1", "3"}, {"-1"}},
            {"--FMG_cycle", {"0", "1", "2"}, {"3", "-1"}},
            {"--extrapolation", {"0", "1", "2", "3"}, {"4", "-1"}},
            {"--maxLevels", {"-1", "2", "3"}, {"0", "1", "99"}},
            {"--preSmoothingSteps", {"1", "2", "0"}, {"-1"}},
            {"--postSmoothingSteps", {"1", "2", "0"}, {"-1"}},
            {"--multigridCycle", {"0", "1", "2"}, {"3", "-1"}},
            {"--maxIterations", {"0", "3", "150"}, {"-1"}},
            {"--residualNormType", {"0", "1", "2"}, {"3", "-1"}},
            {"--absoluteTolerance", {"1e-8", "-1"}, {"tol"}},
            {"--relativeTolerance", {"1e-8", "-1"}, {"tol"}},
            {"--verbose", {"0", "1"}, {"-1"}},
            {"--maxOpenMPThreads", {"1", "2"}, {"0", "-1"}},
            {"--threadReductionFactor", {"1.0", "0.5"}, {"0", "-1", "3"}},
            {"--stencilDistributionMethod", {"0", "1"}, {"2", "-1"}},
            {"--cacheDensityProfileCoefficients", {"0", "1"}, {"2"}},
            {"--cacheDomainGeometry", {"0", "1"}, {"2"}},
            {"--paraview", {"0", "1", "1"}, {"2", "-1"}},
            {"--write_grid_file", {"0", "1"}, {"2"}},
            {"--load_grid_file", {"0", "1"}, {"2"}},
            {"--file_grid_radii", {"_r.txt", "radii_out.txt"}, {""}},
            {"--file_grid_angles", {"_t.txt", "angles_out.txt"}, {""}},
        };
        std::string argv = "--verbose\x1f" "0\x1f--nr_exp\x1f" + std::string(rpick({"3", "3", "4"}));
        const int nopt = rint(0, 7);
        for (int k = 0; k < nopt; k++) {
            const Opt& op = opts[rint(0, (int)opts.size() - 1)];
            const int kind = rweighted({10, 3, 1, 1, 3}); // valid value, invalid value, missing value, unknown option, odd number
            if (kind == 4) {
                // lexically unusual numbers for any option: out of the range of int / double, trailing characters, signs,
                // hexadecimal, fractions for integer options (each is either rejected or accepted as some definite value)
                argv += std::string("\x1f") + op.name + "\x1f" +
                        (rbool() ? rpick({"99999999999", "-3000000000", "1e400", "1e-400", "-1e400", "2147483648", "1e400", "1e-400"})
                                 : rpick({"7x", "1e", "+3", " 3", "0x10", "3.", ".5", "1e+2", "3.7", "1e-5x", "nan", "inf", "-0", "00003"}));
            }
            else if (kind == 0)
                argv += std::string("\x1f") + op.name + "\x1f" + op.good[rint(0, (int)op.good.size() - 1)];
            else if (kind == 1)
                argv += std::string("\x1f") + op.name + "\x1f" + op.bad[rint(0, (int)op.bad.size() - 1)];
            else if (kind == 2)
                argv += std::string("\x1f") + op.name;
            else
                argv += std::string("\x1f") + rpick({"--bogus", "-Z", "--help", "stray", "--nr_exp=3", "-?"});
        }
        c.putS("argv", argv);
    }
    return c;
}
#endif
