// Generators for admissible polar grids (constructed, not filtered).
#pragma once
#include "engine.h"
#include <cmath>

#ifndef VERIF_NO_RAPIDCHECK
// strictly increasing radii R0 = r_0 < ... < r_{nr-1} = Rmax
//   cls 0 uniform, 1 geometric ratio<=4, 2 independent random ratios in [1/8,8], 3 midpoint-nested (nr odd)
inline std::vector<double> genRadii(int nr, int cls, double R0, double Rmax)
{
    std::vector<double> h(nr - 1, 1.0);
    if (cls == 1) {
        double q = runi(1.0, 4.0);
        q        = std::pow(q, 1.0 / std::max(1, nr - 2));
        if (rbool())
            q = 1.0 / q;
        for (int i = 1; i < nr - 1; i++)
            h[i] = h[i - 1] * q;
    }
    else if (cls == 2) {
        Rnd r(rseed());
        for (int i = 0; i < nr - 1; i++)
            h[i] = std::pow(8.0, r.uni(-1, 1));
    }
    else if (cls == 3) {
        // random coarse spacing, each coarse cell halved exactly
        Rnd r(rseed());
        for (int i = 0; i + 1 < nr - 1; i += 2) {
            double w = std::pow(8.0, r.uni(-1, 1));
            h[i] = h[i + 1] = w;
        }
    }
    double tot = 0;
    for (double x : h)
        tot += x;
    std::vector<double> rad(nr);
    rad[0]   = R0;
    double s = 0;
    for (int i = 1; i < nr; i++) {
        s += h[i - 1];
        rad[i] = R0 + (Rmax - R0) * (s / tot);
    }
    rad[nr - 1] = Rmax;
    if (cls == 3)
        for (int i = 1; i + 1 < nr; i += 2)
            rad[i] = 0.5 * (rad[i - 1] + rad[i + 1]);
    // guard against accidental ties from rounding
    for (int i = 1; i < nr; i++)
        if (!(rad[i] > rad[i - 1]))
            rad[i] = std::nextafter(rad[i - 1], 1e300);
    return rad;
}

// angles 0 = t_0 < ... < t_ntheta = 2 pi with an antipodal partner for every angle (ntheta even).
//   cls 0 uniform, 1 non-uniform half list mirrored by +pi, 2 as 1 but the half list is midpoint-nested
//   (needs ntheta % 4 == 0) so that the coarse grid is admissible and fine nodes are midpoints
inline std::vector<double> genAngles(int ntheta, int cls)
{
    const int m = ntheta / 2;
    std::vector<double> half(m);
    if (cls == 0 || m < 2) {
        std::vector<double> a(ntheta + 1);
        for (int i = 0; i < ntheta; i++)
            a[i] = i * (2 * M_PI / ntheta);
        a[ntheta] = 2 * M_PI;
        return a;
    }
    Rnd r(rseed());
    std::vector<double> w(m, 1.0);
    if (cls == 2 && m % 2 == 0) {
        for (int i = 0; i < m; i += 2)
            w[i] = w[i + 1] = std::pow(4.0, r.uni(-1, 1));
    }
    else
        for (int i = 0; i < m; i++)
            w[i] = std::pow(4.0, r.uni(-1, 1));
    double tot = 0;
    for (double x : w)
        tot += x;
    double s = 0;
    for (int i = 0; i < m; i++) {
        half[i] = M_PI * (s / tot);
        s += w[i];
    }
    if (cls == 2 && m % 2 == 0)
        for (int i = 1; i < m; i += 2)
            half[i] = 0.5 * (half[i - 1] + (i + 1 < m ? half[i + 1] : M_PI));
    std::vector<double> a(ntheta + 1);
    for (int i = 0; i < m; i++) {
        a[i]     = half[i];
        a[m + i] = half[i] + M_PI;
    }
    a[ntheta] = 2 * M_PI;
    return a;
}

inline double genR0overRmax()
{
    return rpick({1e-8, 1e-5, 1e-3, 1e-2, 0.1, 0.5});
}
#endif
