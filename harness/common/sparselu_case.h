// C16 case: a square sparse matrix that admits LU without pivoting, in arbitrary storage order.
//   n, rows[], cols[], vals[] (storage order; rows ascending as the CSR triplet constructor documents,
//   columns inside a row in any order, explicit zeros allowed, no duplicate positions),
//   ctor (0 triplets, 1 raw arrays, 2 nz_per_row + setters), nrhs, rhs_kind, rhs_seed, cls, child (run solve in a forked child)
// Oracle: long double dense LU without pivoting gives L^,U^; Higham Thm 9.4: the computed solution
// satisfies |b - A x| <= gamma_3n |L^||U^||x|; forward error <= |A^-1| * that. Later right-hand sides
// equally accurate, first one re-solved last bitwise identical.
#pragma once
#include <tuple>
#include "dense.h"
#include "engine.h"
#include "LinearAlgebra/csr_matrix.h"
#include "LinearAlgebra/sparseLUSolver.h"
#include <fcntl.h>
#include <sys/wait.h>

static const double kEpsLU = 2.220446049250313e-16;

inline std::vector<double> luRhs(int n, int kind, uint64_t seed, int which)
{
    Rnd r(seed * 104729 + which);
    std::vector<double> b(n);
    for (int i = 0; i < n; i++) {
        switch (kind) {
        case 0:
            b[i] = r.normal();
            break;
        case 1:
            b[i] = (i == (int)((seed + which) % n)) ? 1.0 : 0.0;
            break;
        case 2:
            b[i] = r.normal() * std::pow(10.0, r.uni(-8, 8));
            break;
        default:
            b[i] = 1.0 + 0.5 * which;
            break;
        }
    }
    return b;
}

// runs the solver; if inChild, in a forked child so that a process exit is observed, not suffered
inline bool luSolveGuarded(const SparseLUSolver<double>& S, std::vector<double>& x, bool inChild, std::string& why)
{
    if (!inChild) {
        S.solveInPlace(x.data());
        return true;
    }
    int fd[2];
    if (pipe(fd) != 0) {
        why = "pipe failed";
        return false;
    }
    fflush(nullptr);
    pid_t pid = fork();
    if (pid == 0) {
        close(fd[0]);
        int devnull = open("/dev/null", O_WRONLY);
        if (devnull >= 0)
            dup2(devnull, 2);
        S.solveInPlace(x.data());
        size_t bytes = x.size() * sizeof(double);
        const char* p = (const char*)x.data();
        while (bytes > 0) {
            ssize_t w = write(fd[1], p, bytes);
            if (w <= 0)
                break;
            p += w;
            bytes -= w;
        }
        _exit(0);
    }
    close(fd[1]);
    size_t want = x.size() * sizeof(double), got = 0;
    char* p = (char*)x.data();
    while (got < want) {
        ssize_t r = read(fd[0], p + got, want - got);
        if (r <= 0)
            break;
        got += r;
    }
    close(fd[0]);
    int status = 0;
    waitpid(pid, &status, 0);
    if (got != want || !WIFEXITED(status) || WEXITSTATUS(status) != 0) {
        char buf[160];
        snprintf(buf, sizeof buf, "solveInPlace terminated the process (%s %d) instead of returning a solution",
                 WIFEXITED(status) ? "exit status" : "signal", WIFEXITED(status) ? WEXITSTATUS(status) : WTERMSIG(status));
        why = buf;
        return false;
    }
    return true;
}

inline Outcome runSparseLUCase(const KV& c)
{
    Outcome o;
    const int n    = (int)c.getI("n");
    auto rows      = c.getVI("rows");
    auto cols      = c.getVI("cols");
    auto vals      = c.getVD("vals");
    const int ctor = (int)c.getI("ctor");
    const int nrhs = (int)c.getI("nrhs");
    const int kind = (int)c.getI("rhs_kind");
    const uint64_t seed = c.getU("rhs_seed");
    const bool child    = c.getI("child", 0) != 0;
    const std::string cls = c.getS("cls", "?");
    const size_t nnz = vals.size();
    if (n < 1 || rows.size() != nnz || cols.size() != nnz) {
        o.fail("bad_case", "malformed case");
        return o;
    }
    // dense copy and validity of the storage (rows ascending, no duplicates)
    DMat A(n);
    std::vector<char> seen((size_t)n * n, 0);
    bool unsorted = false, zeros = false;
    for (size_t k = 0; k < nnz; k++) {
        if (rows[k] < 0 || rows[k] >= n || cols[k] < 0 || cols[k] >= n || (k > 0 && rows[k] < rows[k - 1]) ||
            seen[(size_t)rows[k] * n + cols[k]]) {
            o.fail("bad_case", "storage violates the documented constructor preconditions");
            return o;
        }
        seen[(size_t)rows[k] * n + cols[k]] = 1;
        A(rows[k], cols[k])                 = vals[k];
        if (k > 0 && rows[k] == rows[k - 1] && cols[k] < cols[k - 1])
            unsorted = true;
        if (vals[k] == 0.0)
            zeros = true;
    }
    // reference LU without pivoting in long double
    DMat LU = A;
    LD minPivot = 1e4000L;
    for (int k = 0; k < n; k++) {
        LD p = LU(k, k);
        minPivot = std::min(minPivot, fabsl(p));
        if (p == 0 || !std::isfinite((double)p)) {
            o.cls("discarded_zero_pivot");
            return o;
        }
        for (int i = k + 1; i < n; i++) {
            if (LU(i, k) == 0)
                continue;
            LD f     = LU(i, k) / p;
            LU(i, k) = f;
            for (int j = k + 1; j < n; j++)
                LU(i, j) -= f * LU(k, j);
        }
    }
    // diagonal must be stored ("assumes that all diagonal elements are nonzero")
    for (int i = 0; i < n; i++)
        if (!seen[(size_t)i * n + i]) {
            o.cls("discarded_no_diagonal");
            return o;
        }
    // |L||U|
    DMat G(n);
    long fill = 0, nnzA = 0;
    for (int i = 0; i < n; i++)
        for (int j = 0; j < n; j++) {
            LD s = 0;
            for (int k = 0; k <= std::min(i, j); k++) {
                LD l = (k == i) ? 1.0L : LU(i, k);
                LD u = LU(k, j);
                if (k <= j && k <= i)
                    s += fabsl(l) * fabsl(u);
            }
            G(i, j) = s;
            if (LU(i, j) != 0)
                fill++;
            if (A(i, j) != 0)
                nnzA++;
        }
    // (finding F9 - process exit for |u_ii| < 1e-12 - is fixed: small pivots run in-process; the 'tiny' class still uses a
    // forked child so that a process exit would be observed as a failed oracle rather than as a dead worker)
    // pivoted reference on the row-equilibrated matrix (partial pivoting alone is not reliable when
    // rows differ by many orders of magnitude); scaling by powers of two is exact
    std::vector<LD> rowScale(n, 1.0L);
    DMat Aeq = A;
    for (int i = 0; i < n; i++) {
        LD mx = 0;
        for (int j = 0; j < n; j++)
            mx = std::max(mx, fabsl(A(i, j)));
        int e = 0;
        frexpl(mx, &e);
        rowScale[i] = ldexpl(1.0L, -e);
        for (int j = 0; j < n; j++)
            Aeq(i, j) = A(i, j) * rowScale[i];
    }
    DenseLU ref(Aeq);
    if (!ref.ok) {
        o.cls("discarded_singular");
        return o;
    }
    auto refSolve = [&](const std::vector<LD>& b) {
        std::vector<LD> bs(n);
        for (int i = 0; i < n; i++)
            bs[i] = b[i] * rowScale[i];
        std::vector<LD> x = ref.solve(bs);
        for (int it = 0; it < 2; it++) { // iterative refinement
            std::vector<LD> r(n);
            for (int i = 0; i < n; i++) {
                LD s = bs[i];
                for (int j = 0; j < n; j++)
                    s -= Aeq(i, j) * x[j];
                r[i] = s;
            }
            std::vector<LD> d = ref.solve(r);
            for (int i = 0; i < n; i++)
                x[i] += d[i];
        }
        return x;
    };
    o.nontrivial = (fill > nnzA) || unsorted;
    o.signature  = "n" + std::to_string(n) + cls + "c" + std::to_string(ctor) + (unsorted ? "u" : "s") + (zeros ? "z" : "") +
                  "f" + std::to_string(fill > nnzA) + "r" + std::to_string(nrhs) + "k" + std::to_string(kind) +
                  "p" + std::to_string((int)std::floor(log10l(minPivot)));
    o.cls("cls_" + cls);
    o.cls("ctor_" + std::to_string(ctor));
    if (unsorted)
        o.cls("unsorted_columns");
    if (zeros)
        o.cls("stored_zeros");
    if (fill > nnzA)
        o.cls("fill_in");
    if (n == 1)
        o.cls("n1");
    if (child)
        o.cls("child_process");

    // build the CSR container through the requested construction path
    std::unique_ptr<SparseMatrixCSR<double>> M;
    std::vector<int> rowStart(n + 1, 0);
    for (size_t k = 0; k < nnz; k++)
        rowStart[rows[k] + 1]++;
    for (int i = 0; i < n; i++)
        rowStart[i + 1] += rowStart[i];
    if (ctor == 0) {
        std::vector<std::tuple<int, int, double>> tr;
        for (size_t k = 0; k < nnz; k++)
            tr.emplace_back(rows[k], cols[k], vals[k]);
        M = std::make_unique<SparseMatrixCSR<double>>(n, n, tr);
    }
    else if (ctor == 1) {
        M = std::make_unique<SparseMatrixCSR<double>>(n, n, vals, cols, rowStart);
    }
    else {
        M = std::make_unique<SparseMatrixCSR<double>>(n, n, [&](int i) { return rowStart[i + 1] - rowStart[i]; });
        for (int i = 0; i < n; i++)
            for (int k = rowStart[i]; k < rowStart[i + 1]; k++) {
                M->row_nz_index(i, k - rowStart[i]) = cols[k];
                M->row_nz_entry(i, k - rowStart[i]) = vals[k];
            }
    }
    // mat_via: how the matrix object that is factorised came to hold the matrix ("rows stored in any order" is a statement
    // about the content, not about the history of the container): 1 copy-assigned over a matrix with the same dimension and
    // the same number of entries but the row lengths in reverse order, 2 copy-assigned over a matrix of another size,
    // 3 move-assigned over the former; the source object is destroyed first.
    const int matVia = (int)c.getI("mat_via", 0);
    if (matVia != 0 && n >= 1) {
        o.cls("matrix_via_" + std::to_string(matVia));
        std::unique_ptr<SparseMatrixCSR<double>> T;
        if (matVia == 2)
            T = std::make_unique<SparseMatrixCSR<double>>(n + 2, n + 2, [](int) { return 1; });
        else {
            T = std::make_unique<SparseMatrixCSR<double>>(n, n, [&](int i) { return rowStart[n - i] - rowStart[n - 1 - i]; });
            for (int i = 0; i < n; i++)
                for (int k = 0; k < T->row_nz_size(i); k++) {
                    T->row_nz_index(i, k) = k % n;
                    T->row_nz_entry(i, k) = 1.0 + k;
                }
        }
        if (matVia == 3)
            *T = std::move(*M);
        else
            *T = *M;
        M = std::move(T);
    }
    // container observations
    if (M->rows() != n || M->columns() != n || M->non_zero_size() != (int)nnz) {
        o.fail("csr_shape", "CSR container reports wrong shape/nnz");
        return o;
    }
    for (int i = 0; i < n; i++) {
        if (M->row_nz_size(i) != rowStart[i + 1] - rowStart[i]) {
            o.fail("csr_rows", "row_nz_size mismatch in row " + std::to_string(i));
            return o;
        }
        for (int k = rowStart[i]; k < rowStart[i + 1]; k++)
            if (M->row_nz_index(i, k - rowStart[i]) != cols[k] || M->row_nz_entry(i, k - rowStart[i]) != vals[k]) {
                o.fail("csr_entries", "entry read-back mismatch in row " + std::to_string(i));
                return o;
            }
    }
    // How the solver object that performs the solves came to be ("any number of right-hand sides solved one after
    // another" by the object that holds the factorisation, however it got there):
    //   0 constructed from the matrix; 1 copy-ASSIGNED onto a solver holding the factorisation of another matrix of
    //   dimension n-1, n or n+2; 2 move-assigned onto such a solver; 3 copy-constructed; the original is destroyed first.
    const int via = (int)c.getI("via", 0);
    o.cls("solver_via_" + std::to_string(via));
    auto otherSolver = [&](int m) {
        // tridiagonal, strictly diagonally dominant, pivots far from those of A
        std::vector<std::tuple<int, int, double>> t;
        for (int i = 0; i < m; i++) {
            if (i > 0)
                t.emplace_back(i, i - 1, -1.0);
            t.emplace_back(i, i, 7.0 + i);
            if (i + 1 < m)
                t.emplace_back(i, i + 1, 2.0);
        }
        SparseMatrixCSR<double> O(m, m, t);
        return SparseLUSolver<double>(O);
    };
    std::unique_ptr<SparseLUSolver<double>> SP;
    {
        auto orig = std::make_unique<SparseLUSolver<double>>(*M);
        if (via == 1 || via == 2) {
            const int m = std::max(1, n + (int)c.getI("via_dn", 0));
            SP          = std::make_unique<SparseLUSolver<double>>(otherSolver(m));
            if (via == 1)
                *SP = *orig;
            else
                *SP = std::move(*orig);
        }
        else if (via == 3)
            SP = std::make_unique<SparseLUSolver<double>>(*orig);
        else
            SP = std::move(orig);
    }
    const SparseLUSolver<double>& S = *SP;
    M.reset(); // the solver must not depend on the matrix object afterwards

    const LD gamma = 3.0L * n * kEpsLU / (1.0L - 3.0L * n * kEpsLU);
    std::vector<double> firstX;
    for (int k = 0; k < nrhs; k++) {
        const int which       = (k == nrhs - 1 && nrhs > 1) ? 0 : k;
        std::vector<double> b = luRhs(n, kind, seed, which), x = b;
        std::string why;
        if (!luSolveGuarded(S, x, child, why)) {
            o.fail("process_exit", why);
            return o;
        }
        std::vector<LD> bl(b.begin(), b.end());
        std::vector<LD> xr = refSolve(bl);
        // residual bound, row by row
        std::vector<LD> rb(n);
        for (int i = 0; i < n; i++) {
            if (!std::isfinite(x[i])) {
                o.fail("finite", "solution entry " + std::to_string(i) + " is not finite");
                return o;
            }
            LD r = bl[i], g = 0;
            for (int j = 0; j < n; j++) {
                r -= A(i, j) * (LD)x[j];
                g += G(i, j) * fabsl((LD)x[j]);
            }
            rb[i]          = g;
            const LD bound = 8.0L * gamma * g + 4 * kEpsLU * fabsl(bl[i]);
            if (bound > 1e-280L) {
                o.mx("residual_over_bound", (double)(fabsl(r) / bound));
                if (fabsl(r) > bound) {
                    char buf[256];
                    snprintf(buf, sizeof buf, "rhs #%d row %d: |b-Ax|=%.3Le > 8*gamma_3n*(|L||U||x|)=%.3Le", k, i, fabsl(r),
                             bound);
                    o.fail("residual", buf);
                    return o;
                }
            }
        }
        // forward error: |x - x_ref| <= |A^-1| * 8 gamma |L||U||x|  (rigorous consequence)
        if (n <= 80) {
            std::vector<LD> scaled(n);
            for (int i = 0; i < n; i++) {
                // + allowance for the reference itself (long double, refined): 1e-17 componentwise backward error
                LD ax = fabsl(bl[i]);
                for (int j = 0; j < n; j++)
                    ax += fabsl(A(i, j)) * fabsl(xr[j]);
                // and its actual residual (first-order rigorous bound on the reference's own error)
                LD rref = bl[i];
                for (int j = 0; j < n; j++)
                    rref -= A(i, j) * xr[j];
                scaled[i] = 8.0L * gamma * rb[i] + 4 * kEpsLU * fabsl(bl[i]) + 1e-17L * ax + 4.0L * fabsl(rref);
            }
            // |A^-1| * scaled, column by column
            std::vector<LD> fb(n, 0.0L);
            for (int j = 0; j < n; j++) {
                std::vector<LD> e(n, 0.0L);
                e[j]     = 1;
                auto col = refSolve(e); // column j of A^-1
                for (int i = 0; i < n; i++)
                    fb[i] += fabsl(col[i]) * scaled[j];
            }
            for (int i = 0; i < n; i++) {
                LD err = fabsl((LD)x[i] - xr[i]);
                if (fb[i] > 1e-280L) {
                    o.mx("forward_over_bound", (double)(err / fb[i]));
                    if (err > fb[i]) {
                        char buf[256];
                        snprintf(buf, sizeof buf, "rhs #%d entry %d: |x-x_ref|=%.3Le > bound %.3Le", k, i, err, fb[i]);
                        o.fail("forward_error", buf);
                        return o;
                    }
                }
            }
        }
        if (k == 0)
            firstX = x;
        if (k == nrhs - 1 && nrhs > 1 && std::memcmp(firstX.data(), x.data(), sizeof(double) * n) != 0) {
            o.fail("repeat_bitwise", "re-solving the first right-hand side gives a different result");
            return o;
        }
    }
    return o;
}

#ifndef VERIF_NO_RAPIDCHECK
inline KV genSparseLUCase()
{
    KV c;
    int n;
    switch (rweighted({2, 10, 10, 1})) {
    case 0:
        n = rint(1, 2);
        break;
    case 1:
        n = rint(3, 12);
        break;
    case 2:
        n = rint(13, 60);
        break;
    default:
        n = rpick({120, 300});
        break;
    }
    const bool direct = n <= 10;
    Rnd pr(direct ? 0 : rseed());
    auto U = [&](double a, double b) { return direct ? runi(a, b) : pr.uni(a, b); };
    auto Z = [&](int a, int b) { return direct ? rint(a, b) : pr.irange(a, b); };
    const int pattern = rint(0, 4); // banded, arrow, random, block, 9-point
    const int valcls  = rint(0, 2); // row dominant, column dominant, LU product
    std::vector<std::vector<double>> A(n, std::vector<double>(n, 0.0));
    std::vector<std::vector<char>> mask(n, std::vector<char>(n, 0));
    auto put = [&](int i, int j) {
        if (i >= 0 && j >= 0 && i < n && j < n)
            mask[i][j] = 1;
    };
    std::string cls;
    if (pattern == 0) {
        cls    = "band";
        int bl = Z(0, 3), bu = Z(0, 3);
        for (int i = 0; i < n; i++)
            for (int j = i - bl; j <= i + bu; j++)
                put(i, j);
    }
    else if (pattern == 1) {
        cls = "arrow";
        for (int i = 0; i < n; i++) {
            put(i, i);
            put(0, i);
            put(i, 0);
            put(n - 1, i);
        }
    }
    else if (pattern == 2) {
        cls        = "rand";
        double den = U(0.02, 0.5);
        for (int i = 0; i < n; i++)
            for (int j = 0; j < n; j++)
                if (i == j || U(0, 1) < den)
                    put(i, j);
    }
    else if (pattern == 3) {
        cls   = "block";
        int b = Z(1, 5);
        for (int i = 0; i < n; i++)
            for (int j = 0; j < n; j++)
                if (i / b == j / b || (std::abs(i / b - j / b) == 1 && U(0, 1) < 0.3))
                    put(i, j);
    }
    else {
        cls   = "nine";
        int p = std::max(1, (int)std::sqrt((double)n));
        for (int i = 0; i < n; i++)
            for (int di = -1; di <= 1; di++)
                for (int dj = -1; dj <= 1; dj++) {
                    int r = i / p + di, q = i % p + dj;
                    if (r >= 0 && q >= 0 && q < p && r * p + q < n)
                        put(i, r * p + q);
                }
    }
    for (int i = 0; i < n; i++)
        mask[i][i] = 1;
    if (valcls == 2) {
        cls += "_lu";
        // A = L*U with sparse unit lower L and upper U, |u_ii| in [0.1,10]; pattern = structural product
        std::vector<std::vector<double>> L(n, std::vector<double>(n, 0.0)), Um(n, std::vector<double>(n, 0.0));
        for (int i = 0; i < n; i++) {
            L[i][i]  = 1.0;
            Um[i][i] = (Z(0, 1) ? 1 : -1) * std::pow(10.0, U(-1, 1));
            for (int j = 0; j < n; j++) {
                if (!mask[i][j] || i == j)
                    continue;
                if (j < i)
                    L[i][j] = U(-1.5, 1.5);
                else
                    Um[i][j] = U(-2, 2);
            }
        }
        // "every matrix that admits LU without pivoting": the pivot u_ii need not come from a stored diagonal entry. In a
        // quarter of the LU-product cases some rows get u_ii := -(sum_{k<i} l_ik u_ki), so that a_ii is exactly zero while
        // the pivot is not; the zero is then either stored explicitly or left out of the pattern.
        const bool zeroDiag = rint(0, 3) == 0;
        std::vector<char> dropDiag(n, 0);
        int nZeroDiag = 0;
        if (zeroDiag)
            for (int i = 1; i < n; i++) {
                if (Z(0, 2) != 0)
                    continue;
                double sp = 0;
                for (int k = 0; k < i; k++)
                    if (L[i][k] != 0 && Um[k][i] != 0)
                        sp += L[i][k] * Um[k][i];
                if (std::fabs(sp) < 0.05 || std::fabs(sp) > 20)
                    continue;
                Um[i][i]    = -sp;
                dropDiag[i] = Z(0, 1) ? 1 : 2; // 1: entry absent, 2: explicit zero
                nZeroDiag++;
            }
        if (nZeroDiag)
            cls += "_zerodiag";
        for (int i = 0; i < n; i++)
            for (int j = 0; j < n; j++) {
                double s = 0;
                bool any = false;
                for (int k = 0; k <= std::min(i, j); k++)
                    if (L[i][k] != 0 && Um[k][j] != 0) {
                        s += L[i][k] * Um[k][j];
                        any = true;
                    }
                A[i][j]    = s;
                mask[i][j] = any || i == j;
                if (i == j && dropDiag[i]) {
                    A[i][j]    = 0.0; // exact by construction (the last term cancels the partial sum); forced all the same
                    mask[i][j] = dropDiag[i] == 2;
                }
            }
    }
    else {
        cls += valcls == 0 ? "_rowdom" : "_coldom";
        for (int i = 0; i < n; i++)
            for (int j = 0; j < n; j++)
                if (mask[i][j] && i != j)
                    A[i][j] = (Z(0, 1) ? 1 : -1) * U(0.01, 2.0);
        for (int i = 0; i < n; i++) {
            double s = 0;
            for (int j = 0; j < n; j++)
                if (j != i)
                    s += valcls == 0 ? std::fabs(A[i][j]) : std::fabs(A[j][i]);
            A[i][i] = (Z(0, 1) ? 1 : -1) * (s + U(0.05, 2.0));
        }
    }
    // row scaling over many orders of magnitude
    int sc = rweighted({3, 2, 2, 1, 1, 1});
    double span = sc == 0 ? 0 : (sc == 1 ? 3 : (sc == 2 ? 6 : (sc == 3 ? 15 : (sc == 4 ? 9 : 12))));
    bool child  = false;
    if (sc >= 4)
        cls += "_widescaled"; // rows 1e-9..1e9 resp. 1e-12..1e12: later rows may be 1e-18 of an earlier pivot row
    if (sc == 3) {
        cls += "_tiny";
        child = true; // scales reach 1e-15: solved in a forked child
    }
    else if (sc > 0 && sc < 4)
        cls += "_scaled";
    if (span > 0)
        for (int i = 0; i < n; i++) {
            double s = std::pow(10.0, sc == 3 ? U(-span, -span + 3) : U(-span, span));
            for (int j = 0; j < n; j++)
                A[i][j] *= s;
        }
    // explicit zeros
    const bool addZeros = rint(0, 3) == 0;
    if (addZeros)
        for (int i = 0; i < n; i++)
            for (int t = 0; t < 2; t++) {
                int j = Z(0, n - 1);
                if (!mask[i][j]) {
                    mask[i][j] = 1;
                    A[i][j]    = 0.0;
                }
            }
    // storage order: rows ascending, columns shuffled inside a row (or sorted)
    const int order = rint(0, 2); // 0 sorted, 1 reversed, 2 shuffled
    std::vector<int> rows, cols;
    std::vector<double> vals;
    for (int i = 0; i < n; i++) {
        std::vector<int> cs;
        for (int j = 0; j < n; j++)
            if (mask[i][j])
                cs.push_back(j);
        if (order == 1)
            std::reverse(cs.begin(), cs.end());
        else if (order == 2)
            for (int k = (int)cs.size() - 1; k > 0; k--)
                std::swap(cs[k], cs[Z(0, k)]);
        for (int j : cs) {
            rows.push_back(i);
            cols.push_back(j);
            vals.push_back(A[i][j]);
        }
    }
    c.putI("n", n);
    c.putS("cls", cls);
    c.putI("ctor", rint(0, 2));
    c.putI("child", child);
    c.putVI("rows", rows);
    c.putVI("cols", cols);
    c.putVD("vals", vals);
    c.putI("nrhs", rint(1, 4));
    c.putI("via", rweighted({5, 1, 1, 1}));
    c.putI("mat_via", rweighted({6, 1, 1, 1}));
    c.putI("via_dn", rpick({-1, 0, 0, 2}));
    c.putI("rhs_kind", rint(0, 3));
    c.putU("rhs_seed", rseed());
    return c;
}
#endif
