// C14 case: an SPD (cyclic) symmetric tridiagonal system and a number of right-hand sides.
//   n, cyclic, main[n], sub[n-1], corner, nrhs, rhs_seed, rhs_kind, cls
// Oracle: dense long double reference (partial pivoting); forward error bounded by
// c*n*eps*kappa_inf(A); non-cyclic additionally componentwise backward error <= c*n*eps;
// repeated solves with the same rhs bitwise identical; later rhs as accurate as the first.
#pragma once
#include <omp.h>
#include "dense.h"
#include "engine.h"
#include "LinearAlgebra/symmetricTridiagonalSolver.h"
#include "LinearAlgebra/diagonalSolver.h"

static const double kEps = 2.220446049250313e-16;

inline std::vector<double> tridiagRhs(int n, int kind, uint64_t seed, int which)
{
    Rnd r(seed * 7919 + which);
    std::vector<double> b(n);
    for (int i = 0; i < n; i++) {
        switch (kind) {
        case 0:
            b[i] = r.normal();
            break;
        case 1:
            b[i] = (i == (int)((seed + which) % n)) ? 1.0 : 0.0;
            break; // unit vector
        case 2:
            b[i] = r.normal() * std::pow(10.0, r.uni(-8, 8));
            break; // huge dynamic range
        case 3:
            b[i] = 1.0 + 0.1 * which;
            break; // constant
        default:
            b[i] = r.normal();
            break; // kinds >= 4: normal, globally rescaled below
        }
    }
    // the solve is homogeneous in b: globally tiny (1e-18..1e-6) or huge (1e6..1e12) right-hand sides, kinds 4 and 5
    if (kind == 4 || kind == 5) {
        Rnd q(seed * 31 + 5);
        const double sc = std::pow(10.0, kind == 4 ? q.uni(-18, -6) : q.uni(6, 12));
        for (int i = 0; i < n; i++)
            b[i] *= sc;
    }
    return b;
}

inline DMat tridiagDense(int n, bool cyclic, const std::vector<double>& mainD, const std::vector<double>& sub,
                         double corner)
{
    DMat A(n);
    for (int i = 0; i < n; i++)
        A(i, i) = mainD[i];
    for (int i = 0; i + 1 < n; i++) {
        A(i, i + 1) += sub[i];
        A(i + 1, i) += sub[i];
    }
    if (cyclic) {
        // for n == 2 the corner addresses the same entry as the sub-diagonal: contributions add
        A(0, n - 1) += corner;
        A(n - 1, 0) += corner;
    }
    return A;
}

inline Outcome runTridiagCase(const KV& c)
{
    Outcome o;
    const int n       = (int)c.getI("n");
    const bool cyclic = c.getI("cyclic") != 0;
    auto mainD        = c.getVD("main");
    auto sub          = c.getVD("sub");
    const double corner = c.getD("corner", 0.0);
    const int nrhs      = (int)c.getI("nrhs");
    const int rhs_kind  = (int)c.getI("rhs_kind");
    const uint64_t seed = c.getU("rhs_seed");
    const std::string cls = c.getS("cls", "?");
    if (n < 2 || (int)mainD.size() != n || (int)sub.size() != n - 1) {
        o.fail("bad_case", "malformed case");
        return o;
    }
    // reference: dense partial-pivoting LU for small n (obviously correct), O(n) long double
    // LDL^T / bordering beyond; where both exist they are compared with each other.
    const bool useDense = n <= 64;
    TriRef tri(n, cyclic, mainD, sub, corner);
    if (!tri.ok) {
        o.cls("discarded_not_spd");
        return o; // outside the property's domain
    }
    DMat A;
    std::unique_ptr<DenseLU> lu;
    LD kappa, normA = 0;
    for (int i = 0; i < n; i++) {
        LD s = fabsl((LD)mainD[i]);
        if (i > 0)
            s += fabsl((LD)sub[i - 1]);
        if (i + 1 < n)
            s += fabsl((LD)sub[i]);
        if (cyclic && (i == 0 || i == n - 1) && n > 2)
            s += fabsl((LD)corner);
        normA = std::max(normA, s);
    }
    if (useDense) {
        A = tridiagDense(n, cyclic, mainD, sub, corner);
        if (!(choleskyMinPivot(A) > 0)) {
            o.cls("discarded_not_spd");
            return o;
        }
        lu    = std::make_unique<DenseLU>(A);
        kappa = A.normInf() * lu->invNormInf();
        LD k2 = A.normInf() * tri.invNormInf();
        if (fabsl(k2 - kappa) > 1e-6L * kappa) {
            o.fail("harness_reference_mismatch", "dense and tridiagonal references disagree on kappa");
            return o;
        }
    }
    else if (n > 4000 && cls.rfind("dom", 0) == 0 && cls.find("scaled") == std::string::npos) {
        // strictly diagonally dominant: ||A^-1||_inf <= 1 / min_i (|a_ii| - sum_j |a_ij|)  (Varah), O(n) and rigorous;
        // an upper bound on kappa only widens the forward bound below, which mutants miss by many orders anyway
        LD gap = 1e300L;
        for (int i = 0; i < n; i++) {
            LD off = 0;
            if (i > 0)
                off += fabsl((LD)sub[i - 1]);
            if (i + 1 < n)
                off += fabsl((LD)sub[i]);
            if (cyclic && (i == 0 || i == n - 1))
                off += fabsl((LD)corner);
            gap = std::min(gap, fabsl((LD)mainD[i]) - off);
        }
        if (!(gap > 0)) {
            o.cls("discarded_not_spd");
            return o;
        }
        kappa = normA / gap;
        o.cls("kappa_varah_bound");
    }
    else
        kappa = normA * tri.invNormInf();
    auto Aij = [&](int i, int j) -> LD {
        if (i == j)
            return mainD[i];
        LD v = 0;
        if (j == i + 1)
            v += sub[i];
        if (i == j + 1)
            v += sub[j];
        if (cyclic && ((i == 0 && j == n - 1) || (i == n - 1 && j == 0)))
            v += corner;
        return v;
    };
    if (kappa > 1e13L) {
        o.cls("discarded_illconditioned");
        return o;
    }
    bool offdiag = cyclic && corner != 0.0;
    for (double s : sub)
        if (s != 0.0)
            offdiag = true;
    o.nontrivial = offdiag && (n >= 3 || cyclic);
    int logk     = (int)std::floor(std::log10((double)kappa));
    o.signature  = "n" + std::to_string(n) + (cyclic ? "c" : "t") + cls + "k" + std::to_string(logk) + "r" +
                  std::to_string(nrhs) + "k" + std::to_string(rhs_kind);
    o.cls(cyclic ? "cyclic" : "noncyclic");
    o.cls("cls_" + cls);
    if (n == 2)
        o.cls("n2");
    else if (n == 3)
        o.cls("n3");
    else if (n > 1000)
        o.cls("n_gt_1000");
    if (kappa > 1e6L)
        o.cls("kappa_gt_1e6");

    // The solver lives in a std::vector, as the smoothers keep their line solvers; `relocate` = 1 grows that vector after
    // the first solve (the object is move-constructed to a new address), 2 replaces it by a copy of itself: "every time"
    // includes the solves after the container holding the solver has reallocated.
    const int threads = (int)c.getI("threads", 1);
    omp_set_num_threads(std::max(1, threads));
    if (threads > 1)
        o.cls("several_threads_available");
    if (n > 10000)
        o.cls("n_gt_10000");
    const bool restate = c.getI("restate", 0) != 0;
    if (restate)
        o.cls("cyclic_flag_restated_between_solves");
    const int relocate = (int)c.getI("relocate", 0);
    if (relocate)
        o.cls(relocate == 1 ? "relocated_by_move" : (relocate == 2 ? "relocated_by_copy" : "copy_assigned_onto_solver_of_other_size"));
    std::vector<SymmetricTridiagonalSolver<double>> holder;
    holder.reserve(1);
    holder.emplace_back(n);
    {
        SymmetricTridiagonalSolver<double>& S = holder[0];
        S.is_cyclic(cyclic);
        for (int i = 0; i < n; i++)
            S.main_diagonal(i) = mainD[i];
        for (int i = 0; i + 1 < n; i++)
            S.sub_diagonal(i) = sub[i];
        if (cyclic)
            S.cyclic_corner_element() = corner;
    }

    std::vector<double> t1(n), t2(n);
    std::vector<double> firstX;
    for (int k = 0; k < nrhs; k++) {
        // rhs 0 is solved again as the last one: must reproduce bit for bit
        const int which        = (k == nrhs - 1 && nrhs > 1) ? 0 : k;
        std::vector<double> b  = tridiagRhs(n, rhs_kind, seed, which);
        std::vector<double> x  = b;
        std::fill(t1.begin(), t1.end(), 1e300); // temporaries hold garbage
        std::fill(t2.begin(), t2.end(), -1e300);
        if (k == 1 && relocate == 1) {
            std::vector<SymmetricTridiagonalSolver<double>> bigger;
            bigger.reserve(4);
            bigger.emplace_back(std::move(holder[0]));
            holder = std::move(bigger);
        }
        else if (k == 1 && relocate == 2) {
            SymmetricTridiagonalSolver<double> copy(holder[0]);
            holder[0] = copy;
        }
        else if (k == 1 && relocate >= 3) {
            // the solving object becomes an EXISTING solver of another dimension (larger: 3, smaller: 4) that has already
            // solved a system of its own and is then copy-assigned the solver under test
            const int m = relocate == 3 ? n + 3 : std::max(2, n - 1);
            SymmetricTridiagonalSolver<double> other(m);
            other.is_cyclic(cyclic);
            for (int i = 0; i < m; i++)
                other.main_diagonal(i) = 4.0 + 0.25 * i;
            for (int i = 0; i + 1 < m; i++)
                other.sub_diagonal(i) = -1.0;
            if (cyclic)
                other.cyclic_corner_element() = 0.5;
            std::vector<double> y(m, 1.0), u1(m), u2(m);
            other.solveInPlace(y.data(), u1.data(), cyclic ? u2.data() : nullptr);
            other = holder[0];
            std::vector<SymmetricTridiagonalSolver<double>> fresh;
            fresh.reserve(1);
            fresh.emplace_back(std::move(other));
            holder = std::move(fresh);
        }
        SymmetricTridiagonalSolver<double>& S = holder[0];
        if (k >= 1 && restate) {
            // a value-preserving call of a setter between two solves (re-stating the cyclic flag; reading the accessors)
            S.is_cyclic(S.is_cyclic());
            (void)S.rows();
            (void)S.columns();
        }
        S.solveInPlace(x.data(), t1.data(), cyclic ? t2.data() : nullptr);
        std::vector<LD> bl(b.begin(), b.end());
        std::vector<LD> xr = useDense ? lu->solve(bl) : tri.solve(bl);
        LD xnorm = 0, err = 0;
        for (int i = 0; i < n; i++) {
            xnorm = std::max(xnorm, fabsl(xr[i]));
            if (!std::isfinite(x[i])) {
                o.fail("finite", "solution entry " + std::to_string(i) + " of solve #" + std::to_string(k) +
                                     " is not finite");
                return o;
            }
            err = std::max(err, fabsl((LD)x[i] - xr[i]));
        }
        if (xnorm > 0) {
            const LD bound = 8.0L * n * kEps * kappa * xnorm;
            o.mx("fwd_err_over_bound", (double)(err / bound));
            if (err > bound) {
                char buf[256];
                snprintf(buf, sizeof buf, "solve #%d: |x-x_ref|_inf=%.3Le > 8*n*eps*kappa*|x|=%.3Le (kappa=%.2Le)", k,
                         err, bound, kappa);
                o.fail("forward_error", buf);
                return o;
            }
        }
        if (!cyclic) {
            // componentwise backward error (Higham: LDL^T of an SPD tridiagonal matrix)
            LD worst = 0;
            for (int i = 0; i < n; i++) {
                LD r = -bl[i], den = fabsl(bl[i]);
                for (int j = std::max(0, i - 1); j <= std::min(n - 1, i + 1); j++) {
                    r += Aij(i, j) * (LD)x[j];
                    den += fabsl(Aij(i, j)) * fabsl((LD)x[j]);
                }
                // rows whose terms lie in the underflow range carry no rounding-error model
                if (den > 1e-250L)
                    worst = std::max(worst, fabsl(r) / den);
            }
            // Higham, Accuracy and Stability, Thm 9.12/9.13: for an SPD tridiagonal matrix the computed
            // factors satisfy |L||U| = |A|, hence a componentwise backward error of a few eps.
            {
                const LD bound = 32.0L * kEps;
                o.mx("cw_backward_over_bound", (double)(worst / bound));
                if (worst > bound) {
                    char buf[200];
                    snprintf(buf, sizeof buf, "solve #%d: componentwise backward error %.3Le > 32 eps", k, worst);
                    o.fail("backward_error", buf);
                    return o;
                }
            }
        }
        if (k == 0)
            firstX = x;
        if (k == nrhs - 1 && nrhs > 1) {
            if (std::memcmp(firstX.data(), x.data(), sizeof(double) * n) != 0) {
                o.fail("repeat_bitwise", "re-solving the first right-hand side after " + std::to_string(nrhs - 1) +
                                             " solves gives a different result");
                return o;
            }
        }
    }

    // DiagonalSolver: x_i = b_i / d_i, correctly rounded
    {
        // the object that solves is, depending on `relocate`, the filled one, a copy-constructed one, a move-constructed one,
        // or one copy-/move-assigned over an object of another dimension (the smoothers hold these solvers in vectors and
        // are themselves copied); every right-hand side of the case is solved ("every time")
        const int relocate = (int)c.getI("relocate", 0);
        auto filled        = std::make_unique<DiagonalSolver<double>>(n);
        for (int i = 0; i < n; i++)
            filled->diagonal(i) = mainD[i];
        std::unique_ptr<DiagonalSolver<double>> D;
        switch (relocate) {
        case 1:
            D = std::make_unique<DiagonalSolver<double>>(*filled);
            filled.reset();
            break;
        case 2:
            D = std::make_unique<DiagonalSolver<double>>(std::move(*filled));
            filled.reset();
            break;
        case 3:
            D  = std::make_unique<DiagonalSolver<double>>(n + 3);
            *D = *filled;
            filled.reset();
            break;
        case 4:
            D  = std::make_unique<DiagonalSolver<double>>(n > 2 ? n - 1 : n + 1);
            *D = std::move(*filled);
            filled.reset();
            break;
        default:
            D = std::move(filled);
            break;
        }
        if (D->rows() != n || D->columns() != n) {
            o.fail("diagonal_solver", "DiagonalSolver reports dimension " + std::to_string(D->rows()) + " x " + std::to_string(D->columns()));
            return o;
        }
        for (int r = 0; r < nrhs; r++) {
            std::vector<double> b = tridiagRhs(n, rhs_kind, seed, r), x = b;
            D->solveInPlace(x.data());
            for (int i = 0; i < n; i++) {
                if (!(x[i] == b[i] / mainD[i])) {
                    o.fail("diagonal_solver", "DiagonalSolver (relocate " + std::to_string(relocate) + "), rhs #" + std::to_string(r) + ": entry " +
                                                  std::to_string(i) + " is not b/d");
                    return o;
                }
            }
        }
    }
    return o;
}

#ifndef VERIF_NO_RAPIDCHECK
inline KV genTridiagCase()
{
    KV c;
    // dimension: n = 2, 3 weighted up; occasionally large
    int n;
    int threads = 1;
    switch (rweighted({24, 24, 64, 32, 2, 1})) {
    case 0:
        n = 2;
        break;
    case 1:
        n = 3;
        break;
    case 2:
        n = rint(4, 24);
        break;
    case 3:
        n = rint(25, 200);
        break;
    case 4:
    {
        const char* t = getenv("VERIF_TIER");
        n             = (t && std::string(t) == "thorough") ? rpick({1000, 1000, 2048, 2048, 2048, 10000}) : rpick({300, 1000});
    }
        break;
    default:
        // above the size at which this code base switches its kernels to OpenMP (n > 10'000), called from serial code
        // with several threads available: "every system ... every time" has no size or thread-count exemption
        n       = rpick({10001, 12007, 20000});
        threads = rpick({2, 3, 4});
        break;
    }
    const bool cyclic = rbool();
    // construction class
    //  dom: strictly diagonally dominant; ldl: L D L^T (non cyclic); ctc: C^T C with cyclic bidiagonal C
    int k = cyclic ? rweighted({3, 0, 3}) : rweighted({3, 3, 1});
    bool scaled = rint(0, 2) == 0;
    if (n > 4000 && threads > 1) {
        k      = 0; // diagonally dominant, unscaled: the condition number has a rigorous O(n) bound
        scaled = false;
    }
    std::vector<double> mainD(n), sub(n - 1);
    double corner = 0.0;
    std::string cls;
    const bool direct = n <= 24; // entries drawn one by one through rapidcheck (fully shrinkable)
    Rnd pr(direct ? 0 : rseed());
    auto U = [&](double a, double b) { return direct ? runi(a, b) : pr.uni(a, b); };
    auto Z = [&](int a, int b) { return direct ? rint(a, b) : pr.irange(a, b); };
    if (k == 0) {
        cls = "dom";
        for (int i = 0; i + 1 < n; i++) {
            int z  = Z(0, 5);
            sub[i] = z == 0 ? 0.0 : (z % 2 ? 1 : -1) * U(0.01, 3.0);
        }
        if (cyclic) {
            int z  = Z(0, 4);
            corner = z == 0 ? 0.0 : (z % 2 ? 1 : -1) * U(0.01, 3.0);
        }
        for (int i = 0; i < n; i++) {
            double s = 0;
            if (i > 0)
                s += std::fabs(sub[i - 1]);
            if (i + 1 < n)
                s += std::fabs(sub[i]);
            if (cyclic && (i == 0 || i == n - 1))
                s += std::fabs(corner);
            mainD[i] = s + U(0.01, 2.0);
        }
    }
    else if (k == 1) {
        cls = "ldl";
        std::vector<double> l(n - 1), d(n);
        for (int i = 0; i < n; i++)
            d[i] = U(0.05, 5.0);
        for (int i = 0; i + 1 < n; i++)
            l[i] = U(-2.0, 2.0);
        for (int i = 0; i < n; i++)
            mainD[i] = d[i] + (i > 0 ? l[i - 1] * l[i - 1] * d[i - 1] : 0.0);
        for (int i = 0; i + 1 < n; i++)
            sub[i] = l[i] * d[i];
    }
    else {
        cls = "ctc";
        // C has p_i on the diagonal and q_i at (i, i+1 mod n); |p_i| > |q_i| keeps C non-singular
        std::vector<double> p(n), q(n);
        for (int i = 0; i < n; i++) {
            q[i] = U(-2.0, 2.0);
            p[i] = (Z(0, 1) ? 1 : -1) * (std::fabs(q[i]) * U(1.05, 2.0) + U(0.01, 1.0));
        }
        if (!cyclic)
            q[n - 1] = 0.0;
        for (int j = 0; j < n; j++)
            mainD[j] = p[j] * p[j] + q[(j + n - 1) % n] * q[(j + n - 1) % n];
        if (!cyclic)
            mainD[0] = p[0] * p[0];
        for (int j = 0; j + 1 < n; j++)
            sub[j] = p[j] * q[j];
        if (cyclic)
            corner = p[n - 1] * q[n - 1];
    }
    if (scaled) {
        cls += "scaled";
        std::vector<double> s(n);
        for (int i = 0; i < n; i++)
            s[i] = std::pow(10.0, U(-2.5, 2.5));
        for (int i = 0; i < n; i++)
            mainD[i] *= s[i] * s[i];
        for (int i = 0; i + 1 < n; i++)
            sub[i] *= s[i] * s[i + 1];
        corner *= s[0] * s[n - 1];
    }
    // cyclic systems in other units (all entries times 2^k, |k| up to 60): still SPD, and nothing in the property
    // ties "every SPD system" to entries of order one. (Open systems are left alone: their solve asserts an
    // absolute pivot floor, a documented precondition.)
    int gscale_exp = 0;
    if (cyclic && rint(0, 4) == 0) {
        gscale_exp = rpick({-60, -50, -45, -40, -30, 30, 45, 60});
        for (auto& v : mainD)
            v = std::ldexp(v, gscale_exp);
        for (auto& v : sub)
            v = std::ldexp(v, gscale_exp);
        corner = std::ldexp(corner, gscale_exp);
        cls += gscale_exp < 0 ? "tiny" : "huge";
    }
    c.putI("gscale_exp", gscale_exp);
    c.putI("n", n);
    c.putI("threads", threads);
    c.putI("cyclic", cyclic);
    c.putS("cls", cls);
    c.putVD("main", mainD);
    c.putVD("sub", sub);
    c.putD("corner", corner);
    c.putI("nrhs", rint(1, 4));
    c.putI("rhs_kind", rint(0, 5));
    c.putI("relocate", rweighted({4, 1, 1, 1, 1}));
    c.putI("restate", rweighted({3, 1}));
    c.putU("rhs_seed", rseed());
    return c;
}
#endif
