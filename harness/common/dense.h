// Small dense reference linear algebra in long double (independent of the code under test).
#pragma once
#include <cmath>
#include <vector>

typedef long double LD;

struct DMat {
    int n = 0;
    std::vector<LD> a;
    DMat() = default;
    explicit DMat(int n_)
        : n(n_)
        , a((size_t)n_ * n_, 0.0L)
    {
    }
    LD& operator()(int i, int j)
    {
        return a[(size_t)i * n + j];
    }
    const LD& operator()(int i, int j) const
    {
        return a[(size_t)i * n + j];
    }
    std::vector<LD> mul(const std::vector<LD>& x) const
    {
        std::vector<LD> y(n, 0.0L);
        for (int i = 0; i < n; i++) {
            LD s = 0;
            for (int j = 0; j < n; j++)
                s += (*this)(i, j) * x[j];
            y[i] = s;
        }
        return y;
    }
    LD normInf() const
    {
        LD m = 0;
        for (int i = 0; i < n; i++) {
            LD s = 0;
            for (int j = 0; j < n; j++)
                s += fabsl((*this)(i, j));
            if (s > m)
                m = s;
        }
        return m;
    }
};

// LU with partial pivoting; returns false if singular to working precision
struct DenseLU {
    DMat lu;
    std::vector<int> piv;
    bool ok = true;
    explicit DenseLU(const DMat& A)
        : lu(A)
        , piv(A.n)
    {
        int n = lu.n;
        for (int k = 0; k < n; k++) {
            int p = k;
            LD mx = fabsl(lu(k, k));
            for (int i = k + 1; i < n; i++)
                if (fabsl(lu(i, k)) > mx) {
                    mx = fabsl(lu(i, k));
                    p  = i;
                }
            piv[k] = p;
            if (mx == 0) {
                ok = false;
                continue;
            }
            if (p != k)
                for (int j = 0; j < n; j++)
                    std::swap(lu(k, j), lu(p, j));
            for (int i = k + 1; i < n; i++) {
                LD f     = lu(i, k) / lu(k, k);
                lu(i, k) = f;
                if (f != 0)
                    for (int j = k + 1; j < n; j++)
                        lu(i, j) -= f * lu(k, j);
            }
        }
    }
    std::vector<LD> solve(std::vector<LD> b) const
    {
        int n = lu.n;
        // rows were swapped in full during the factorisation (LAPACK convention): permute first
        for (int k = 0; k < n; k++)
            if (piv[k] != k)
                std::swap(b[k], b[piv[k]]);
        for (int k = 0; k < n; k++)
            for (int i = k + 1; i < n; i++)
                b[i] -= lu(i, k) * b[k];
        for (int i = n - 1; i >= 0; i--) {
            LD s = b[i];
            for (int j = i + 1; j < n; j++)
                s -= lu(i, j) * b[j];
            b[i] = s / lu(i, i);
        }
        return b;
    }
    // infinity norm of the inverse (exact up to rounding, O(n^3))
    LD invNormInf() const
    {
        int n = lu.n;
        std::vector<LD> rowsum(n, 0.0L);
        for (int j = 0; j < n; j++) {
            std::vector<LD> e(n, 0.0L);
            e[j]   = 1;
            auto x = solve(e);
            for (int i = 0; i < n; i++)
                rowsum[i] += fabsl(x[i]);
        }
        LD m = 0;
        for (LD v : rowsum)
            if (v > m)
                m = v;
        return m;
    }
};

// Cholesky in long double: returns the smallest pivot (<=0 means not positive definite)
inline LD choleskyMinPivot(DMat A)
{
    int n    = A.n;
    LD minp  = 1e4000L;
    for (int k = 0; k < n; k++) {
        LD d = A(k, k);
        for (int j = 0; j < k; j++)
            d -= A(k, j) * A(k, j);
        if (d < minp)
            minp = d;
        if (!(d > 0))
            return d;
        LD s    = sqrtl(d);
        A(k, k) = s;
        for (int i = k + 1; i < n; i++) {
            LD v = A(i, k);
            for (int j = 0; j < k; j++)
                v -= A(i, j) * A(k, j);
            A(i, k) = v / s;
        }
    }
    return minp;
}

// Reference solver for SPD (cyclic) symmetric tridiagonal systems in long double, O(n) per solve.
// Non-cyclic: LDL^T. Cyclic: bordering (Schur complement on the last unknown) - deliberately a
// different algorithm from the Sherman-Morrison update used by the code under test.
struct TriRef {
    int n;
    bool cyclic;
    std::vector<LD> d, l; // factors of the leading tridiagonal block T (size m)
    int m;
    std::vector<LD> v, z; // border column and T^{-1} v
    LD schur = 0, ann = 0;
    bool ok  = true;
    TriRef(int n_, bool cyc, const std::vector<double>& mainD, const std::vector<double>& sub, double corner)
        : n(n_)
        , cyclic(cyc)
    {
        m = cyclic ? n - 1 : n;
        d.assign(m, 0);
        l.assign(m > 0 ? m - 1 : 0, 0);
        for (int i = 0; i < m; i++)
            d[i] = mainD[i];
        for (int i = 0; i + 1 < m; i++)
            l[i] = sub[i];
        for (int i = 1; i < m; i++) {
            if (!(d[i - 1] > 0))
                ok = false;
            l[i - 1] /= d[i - 1];
            d[i] -= l[i - 1] * l[i - 1] * d[i - 1];
        }
        if (m > 0 && !(d[m - 1] > 0))
            ok = false;
        if (cyclic) {
            v.assign(m, 0);
            v[0] += corner;
            v[m - 1] += sub[n - 2];
            z     = solveT(v);
            ann   = mainD[n - 1];
            schur = ann;
            for (int i = 0; i < m; i++)
                schur -= v[i] * z[i];
            if (!(schur > 0))
                ok = false;
        }
    }
    std::vector<LD> solveT(std::vector<LD> b) const
    {
        for (int i = 1; i < m; i++)
            b[i] -= l[i - 1] * b[i - 1];
        for (int i = 0; i < m; i++)
            b[i] /= d[i];
        for (int i = m - 2; i >= 0; i--)
            b[i] -= l[i] * b[i + 1];
        return b;
    }
    std::vector<LD> solve(const std::vector<LD>& b) const
    {
        if (!cyclic)
            return solveT(b);
        std::vector<LD> bb(b.begin(), b.begin() + m);
        std::vector<LD> y = solveT(bb);
        LD s              = b[n - 1];
        for (int i = 0; i < m; i++)
            s -= v[i] * y[i];
        LD xn = s / schur;
        std::vector<LD> x(n);
        for (int i = 0; i < m; i++)
            x[i] = y[i] - z[i] * xn;
        x[n - 1] = xn;
        return x;
    }
    LD invNormInf() const
    {
        std::vector<LD> rowsum(n, 0.0L), e(n, 0.0L);
        for (int j = 0; j < n; j++) {
            e[j]   = 1;
            auto x = solve(e);
            e[j]   = 0;
            for (int i = 0; i < n; i++)
                rowsum[i] += fabsl(x[i]);
        }
        LD mx = 0;
        for (LD q : rowsum)
            if (q > mx)
                mx = q;
        return mx;
    }
};
