// Shared description of a discrete problem (grid, geometry, coefficients, boundary mode) used by the
// operator-level harnesses C03-C10, with (de)serialisation and rapidcheck generators.
#pragma once
#include "engine.h"
#include "gridgen.h"
#include "GMGPolar/gmgpolar.h"
#include "InputFunctions/DomainGeometry/circularGeometry.h"
#include "InputFunctions/DomainGeometry/shafranovGeometry.h"
#include "InputFunctions/DomainGeometry/czarnyGeometry.h"
#include "InputFunctions/DomainGeometry/culhamGeometry.h"
#include "InputFunctions/DensityProfileCoefficients/poissonCoefficients.h"
#include "InputFunctions/DensityProfileCoefficients/sonnendruckerCoefficients.h"
#include "InputFunctions/DensityProfileCoefficients/sonnendruckerGyroCoefficients.h"
#include "InputFunctions/DensityProfileCoefficients/zoniCoefficients.h"
#include "InputFunctions/DensityProfileCoefficients/zoniGyroCoefficients.h"
#include "InputFunctions/DensityProfileCoefficients/zoniShiftedCoefficients.h"
#include "InputFunctions/DensityProfileCoefficients/zoniShiftedGyroCoefficients.h"
#include "Residual/ResidualGive/residualGive.h"
#include "Residual/ResidualTake/residualTake.h"

static const char* kGeomNames[] = {"Circular", "Shafranov", "Czarny", "Culham"};
static const char* kCoefNames[] = {"Poisson", "Sonnendrucker", "SonnendruckerGyro", "Zoni", "ZoniGyro", "ZoniShifted",
                                   "ZoniShiftedGyro"};

// A shipped profile multiplied by a constant: alpha > 0, beta >= 0 are preserved, and the discrete operator is linear in
// (alpha, beta) - profiles in physical units (1e-10 ... 1e8) are legitimate user input (DensityProfileCoefficients is the
// API's extension point) and must not change any operator-level property.
class ScaledCoefficients : public DensityProfileCoefficients
{
public:
    ScaledCoefficients(std::unique_ptr<DensityProfileCoefficients> base, double scale)
        : base_(std::move(base))
        , scale_(scale)
    {
    }
    double alpha(const double& r) const override
    {
        return scale_ * base_->alpha(r);
    }
    double beta(const double& r) const override
    {
        return scale_ * base_->beta(r);
    }
    double getAlphaJump() const override
    {
        return base_->getAlphaJump();
    }

private:
    std::unique_ptr<DensityProfileCoefficients> base_;
    double scale_;
};

struct ProblemSpec {
    std::vector<double> radii, angles;
    int split_mode = 0; // 0 automatic, 1 explicit
    double split   = 0;
    int geom       = 0; // 0 circular, 1 shafranov, 2 czarny, 3 culham
    double Rmax = 1.3, gp1 = 0, gp2 = 0; // kappa/delta resp. eps/e
    int coef          = 0; // index into kCoefNames
    double alpha_jump = 0.5;
    double coef_scale = 1.0; // multiplies alpha and beta
    bool dirbc        = true;

    void put(KV& c) const
    {
        c.putVD("radii", radii);
        c.putVD("angles", angles);
        c.putI("split_mode", split_mode);
        c.putD("split", split);
        c.putI("geom", geom);
        c.putD("Rmax", Rmax);
        c.putD("gp1", gp1);
        c.putD("gp2", gp2);
        c.putI("coef", coef);
        c.putD("alpha_jump", alpha_jump);
        c.putD("coef_scale", coef_scale);
        c.putI("dirbc", dirbc);
    }
    static ProblemSpec get(const KV& c)
    {
        ProblemSpec p;
        p.radii      = c.getVD("radii");
        p.angles     = c.getVD("angles");
        p.split_mode = (int)c.getI("split_mode", 0);
        p.split      = c.getD("split", 0.0);
        p.geom       = (int)c.getI("geom");
        p.Rmax       = c.getD("Rmax");
        p.gp1        = c.getD("gp1", 0.0);
        p.gp2        = c.getD("gp2", 0.0);
        p.coef       = (int)c.getI("coef");
        p.alpha_jump = c.getD("alpha_jump");
        p.coef_scale = c.getD("coef_scale", 1.0);
        p.dirbc      = c.getI("dirbc") != 0;
        return p;
    }
    int nr() const
    {
        return (int)radii.size();
    }
    int ntheta() const
    {
        return (int)angles.size() - 1;
    }
    std::unique_ptr<DomainGeometry> makeGeometry() const
    {
        switch (geom) {
        case 0:
            return std::make_unique<CircularGeometry>(Rmax);
        case 1:
            return std::make_unique<ShafranovGeometry>(Rmax, gp1, gp2);
        case 2:
            return std::make_unique<CzarnyGeometry>(Rmax, gp1, gp2);
        default:
            return std::make_unique<CulhamGeometry>(Rmax);
        }
    }
    std::unique_ptr<DensityProfileCoefficients> makeCoefficients() const
    {
        if (coef_scale != 1.0)
            return std::make_unique<ScaledCoefficients>(makeBaseCoefficients(), coef_scale);
        return makeBaseCoefficients();
    }
    std::unique_ptr<DensityProfileCoefficients> makeBaseCoefficients() const
    {
        switch (coef) {
        case 0:
            return std::make_unique<PoissonCoefficients>(Rmax, alpha_jump);
        case 1:
            return std::make_unique<SonnendruckerCoefficients>(Rmax, alpha_jump);
        case 2:
            return std::make_unique<SonnendruckerGyroCoefficients>(Rmax, alpha_jump);
        case 3:
            return std::make_unique<ZoniCoefficients>(Rmax, alpha_jump);
        case 4:
            return std::make_unique<ZoniGyroCoefficients>(Rmax, alpha_jump);
        case 5:
            return std::make_unique<ZoniShiftedCoefficients>(Rmax, alpha_jump);
        default:
            return std::make_unique<ZoniShiftedGyroCoefficients>(Rmax, alpha_jump);
        }
    }
    std::unique_ptr<PolarGrid> makeGrid() const
    {
        if (split_mode == 1)
            return std::make_unique<PolarGrid>(radii, angles, split);
        return std::make_unique<PolarGrid>(radii, angles);
    }
    bool uniformGrid() const
    {
        bool u = true;
        for (size_t i = 2; i < radii.size(); i++)
            if (std::fabs((radii[i] - radii[i - 1]) - (radii[1] - radii[0])) > 1e-9 * radii.back())
                u = false;
        for (size_t j = 2; j < angles.size(); j++)
            if (std::fabs((angles[j] - angles[j - 1]) - (angles[1] - angles[0])) > 1e-9)
                u = false;
        return u;
    }
    std::string sig() const
    {
        return std::to_string(nr()) + "x" + std::to_string(ntheta()) + kGeomNames[geom] + kCoefNames[coef] +
               (dirbc ? "D" : "O") + (coef_scale == 1.0 ? "" : (coef_scale < 1 ? "s" : "S"));
    }
};

// A hierarchy level owned by the harness, built exactly as GMGPolar::setup() builds it.
struct HLevel {
    std::unique_ptr<Level> level;
};

struct Hierarchy {
    std::unique_ptr<DomainGeometry> geometry;
    std::unique_ptr<DensityProfileCoefficients> coefficients;
    std::vector<std::unique_ptr<Level>> levels;
    bool cache_coef = true, cache_geom = true;

    // depth: number of additional coarse levels (built while the grid can be coarsened)
    void build(const ProblemSpec& p, bool cacheCoef, bool cacheGeom, int depth, ExtrapolationType ex = ExtrapolationType::NONE,
               bool fmg = true)
    {
        cache_coef   = cacheCoef;
        cache_geom   = cacheGeom;
        geometry     = p.makeGeometry();
        coefficients = p.makeCoefficients();
        auto g       = p.makeGrid();
        auto lc      = std::make_unique<LevelCache>(*g, *coefficients, *geometry, cacheCoef, cacheGeom);
        levels.push_back(std::make_unique<Level>(0, std::move(g), std::move(lc), ex, fmg));
        for (int d = 1; d <= depth; d++) {
            const PolarGrid& fine = levels.back()->grid();
            // same admissibility rule as GMGPolar::chooseNumberOfLevels: coarse grid >= 5 radii, >= 4 (even) angles
            if (fine.nr() % 2 == 0 || (fine.nr() + 1) / 2 < 5 || fine.ntheta() % 4 != 0 || fine.ntheta() / 2 < 4)
                break;
            auto cg = std::make_unique<PolarGrid>(coarseningGrid(fine));
            auto cc = std::make_unique<LevelCache>(*levels.back(), *cg);
            levels.push_back(std::make_unique<Level>(d, std::move(cg), std::move(cc), ex, fmg));
        }
    }
};

// Bulk vectors: expanded from (kind, seed) recorded in the case file.
//   0 iid normal, 1 smooth low modes, 2 unit vector, 3 sparse spikes, 4 huge dynamic range, 5 constant
// All generated vectors of a case can be scaled by one power of two (key vec_scale_exp of the case, set by the harness with
// setVectorScaleExp before it builds its vectors): residual, smoothers, transfers, direct solver and cycles are linear in
// (u, f), so a uniformly tiny or huge input must give the correspondingly scaled output - an absolute threshold somewhere
// in the code under test (the code base's equals(x, 0.0) is one) breaks this. All oracle bounds are relative to the data.
inline int& vectorScaleExp()
{
    static thread_local int e = 0;
    return e;
}
inline void setVectorScaleExp(const KV& c, Outcome& o)
{
    vectorScaleExp() = (int)c.getI("vec_scale_exp", 0);
    if (vectorScaleExp() != 0)
        o.cls(vectorScaleExp() < 0 ? "vectors_scaled_tiny" : "vectors_scaled_huge");
}
inline Vector<double> makeVectorUnscaled(const PolarGrid& grid, int kind, uint64_t seed);
inline Vector<double> makeVector(const PolarGrid& grid, int kind, uint64_t seed)
{
    Vector<double> v = makeVectorUnscaled(grid, kind, seed);
    if (vectorScaleExp() != 0)
        for (int i = 0; i < v.size(); i++)
            v[i] = std::ldexp(v[i], vectorScaleExp());
    return v;
}
inline Vector<double> makeVectorUnscaled(const PolarGrid& grid, int kind, uint64_t seed)
{
    const int n = grid.numberOfNodes();
    Vector<double> v(n);
    Rnd r(seed * 2 + 1);
    for (int i = 0; i < n; i++)
        v[i] = 0.0;
    switch (kind) {
    case 0:
        for (int i = 0; i < n; i++)
            v[i] = r.normal();
        break;
    case 1: {
        double a = r.normal(), b = r.normal(), cc = r.normal(), d = r.normal();
        int m1 = r.irange(1, 3), m2 = r.irange(1, 4);
        const double R = grid.radius(grid.nr() - 1);
        for (int i = 0; i < grid.nr(); i++)
            for (int j = 0; j < grid.ntheta(); j++) {
                double s = grid.radius(i) / R, t = grid.theta(j);
                v[grid.index(i, j)] = a + b * s + cc * s * s * std::cos(m1 * t) + d * (1 - s) * std::sin(m2 * t);
            }
        break;
    }
    case 2:
        v[(int)(r.next() % (uint64_t)n)] = 1.0;
        break;
    case 3:
        for (int k = 0; k < 1 + n / 16; k++)
            v[(int)(r.next() % (uint64_t)n)] = r.normal() * 10;
        break;
    case 4:
        for (int i = 0; i < n; i++)
            v[i] = r.normal() * std::pow(10.0, r.uni(-8, 8));
        break;
    default:
        for (int i = 0; i < n; i++)
            v[i] = 1.0;
        break;
    }
    return v;
}

#ifndef VERIF_NO_RAPIDCHECK
struct GridOpts {
    int nr_min = 4, nr_max = 24, nt_min = 4, nt_max = 32;
    bool coarsenable = false; // nr odd, ntheta % 4 == 0 (ntheta >= 8)
    bool extreme_units = false; // also: Rmax of 1e4..1e7 (other length units) and holes of 1e-12..1e-14 Rmax
    bool nt_mult4    = false; // ntheta % 4 == 0
    int min_circles = 0, min_radial = 0; // constraints for explicit splits
    bool allow_explicit_split = true;
    bool allow_large          = false; // a few grids > 10000 nodes
    bool allow_culham         = true;
};

inline ProblemSpec genProblem(const GridOpts& go)
{
    ProblemSpec p;
    int nr, nt;
    const bool large = go.allow_large && rint(0, 99) == 0;
    if (large) {
        nr = rpick({65, 81, 97});
        nt = rpick({160, 192, 256});
    }
    else {
        // many small, some medium
        nr = rweighted({5, 3, 1}) == 0 ? rint(go.nr_min, std::min(go.nr_max, go.nr_min + 6))
                                       : rint(go.nr_min, go.nr_max);
        nt = rweighted({5, 3, 1}) == 0 ? rint(go.nt_min, std::min(go.nt_max, go.nt_min + 8))
                                       : rint(go.nt_min, go.nt_max);
    }
    if (go.coarsenable) {
        if (nr % 2 == 0)
            nr += 1;
        nt = std::max(8, (nt / 4) * 4);
    }
    else if (go.nt_mult4)
        nt = std::max(4, (nt / 4) * 4);
    else
        nt = std::max(4, (nt / 2) * 2);
    p.Rmax = rpick({1.3, 1.0, 0.5, 2.0});
    if (rint(0, 3) == 0)
        p.Rmax = runi(0.5, 2.0);
    double R0 = p.Rmax * genR0overRmax();
    if (go.extreme_units) {
        // nothing in the operator's definition refers to a unit of length or to a smallest hole; the code's equals() helper
        // does (an absolute 2.2e-13), so quantities of that size are put in front of it
        switch (rweighted({8, 1, 1})) {
        case 1:
            p.Rmax *= std::pow(10.0, rpick({4, 6, 7}));
            R0 = p.Rmax * genR0overRmax();
            break;
        case 2:
            R0 = p.Rmax * rpick({1e-12, 1e-14});
            break;
        default:
            break;
        }
    }
    int rcls        = rint(0, 3);
    if (rcls == 3 && nr % 2 == 0)
        rcls = 2;
    p.radii  = genRadii(nr, rcls, R0, p.Rmax);
    int acls = rint(0, 2);
    if (acls == 2 && nt % 4 != 0)
        acls = 1;
    if (go.coarsenable && acls == 1)
        acls = 2; // the coarse grid must again have antipodal partners
    p.angles = genAngles(nt, acls);
    // geometry with parameters in their valid ranges; shipped defaults weighted up
    p.geom = go.allow_culham ? rweighted({3, 4, 4, 1}) : rweighted({3, 4, 4});
    if (p.geom == 1) {
        if (rint(0, 2) == 0) {
            p.gp1 = 0.3;
            p.gp2 = 0.2;
        }
        else {
            p.gp1 = runi(0.0, 0.6);
            p.gp2 = runi(0.0, 0.45 * (1 - p.gp1));
        }
    }
    else if (p.geom == 2) {
        if (rint(0, 2) == 0) {
            p.gp1 = 0.3;
            p.gp2 = 1.4;
        }
        else {
            p.gp1 = runi(0.05, 0.7);
            p.gp2 = runi(0.5, 2.0);
        }
    }
    p.coef       = rint(0, 6);
    p.alpha_jump = p.Rmax * runi(0.3, 0.95);
    // profile in other units: 1 (70%), 1e-8..1e-3 (15%), 1e3..1e8 (15%)
    switch (rweighted({14, 3, 3})) {
    case 1:
        p.coef_scale = std::pow(10.0, runi(-8, -3)); // (the line solvers assert |pivot| > 2.2e-13 absolutely)
        break;
    case 2:
        p.coef_scale = std::pow(10.0, runi(3, 8));
        break;
    default:
        p.coef_scale = 1.0;
    }
    p.dirbc      = rbool();
    // split
    if (go.allow_explicit_split && rint(0, 1) == 0) {
        p.split_mode = 1;
        int lo = go.min_circles, hi = nr - go.min_radial;
        if (hi < lo)
            hi = lo;
        int nc = rweighted({2, 2, 3}) == 0 ? lo : (rbool() ? hi : rint(lo, hi));
        // explicit split so that exactly nc radii lie below it
        if (nc <= 0)
            p.split = 0.5 * p.radii[0];
        else if (nc >= nr)
            p.split = 2 * p.radii[nr - 1];
        else
            p.split = 0.5 * (p.radii[nc - 1] + p.radii[nc]);
    }
    return p;
}
#endif
