// C06 / C07: (extrapolated) smoothing is an exact zebra line relaxation of the same operator.
//   ProblemSpec + threads, strategy (0 take, 1 give), cache_coef, cache_geom, x_kind/x_seed, f_kind/f_seed, carry_bc
// Reference model: zebra relaxation on the *probed* matrix of the residual operator, in long double:
//   black circles, white circles, black radial lines, white radial lines; the outermost circle is black,
//   radial line colour = parity of i_theta; per line L solve A[L^F,L^F] d = (f - A x)[L^F], x[L^F] += d,
//   F = all nodes (C06) or the nodes that are not on the next coarser grid (C07).
#pragma once
#include "engine.h"
#include "problem.h"
#include "refop.h"
#include "Smoother/SmootherGive/smootherGive.h"
#include "Smoother/SmootherTake/smootherTake.h"
#include "ExtrapolatedSmoother/ExtrapolatedSmootherGive/extrapolatedSmootherGive.h"
#include "ExtrapolatedSmoother/ExtrapolatedSmootherTake/extrapolatedSmootherTake.h"

static const double SEPS = 2.220446049250313e-16;

struct ZebraModel {
    const PolarGrid& g;
    const DMat& A;
    bool extrapolated;
    LD kappaMax = 1;
    ZebraModel(const PolarGrid& grid, const DMat& A_, bool ex)
        : g(grid)
        , A(A_)
        , extrapolated(ex)
    {
    }
    bool isFree(int i, int j) const
    {
        return !extrapolated || (i & 1) || (j & 1);
    }
    void relaxLine(const std::vector<int>& line, const std::vector<LD>& xold, std::vector<LD>& xnew, const std::vector<LD>& f)
    {
        const int m = (int)line.size();
        if (m == 0)
            return;
        DMat B(m);
        std::vector<LD> r(m);
        const int n = A.n;
        for (int a = 0; a < m; a++) {
            LD s = f[line[a]];
            for (int k = 0; k < n; k++)
                if (A(line[a], k) != 0)
                    s -= A(line[a], k) * xold[k];
            r[a] = s;
            for (int b = 0; b < m; b++)
                B(a, b) = A(line[a], line[b]);
        }
        DenseLU lu(B);
        if (m <= 64)
            kappaMax = std::max(kappaMax, B.normInf() * lu.invNormInf());
        std::vector<LD> d = lu.solve(r);
        for (int a = 0; a < m; a++)
            xnew[line[a]] = xold[line[a]] + d[a];
    }
    // one sweep, in place
    void sweep(std::vector<LD>& x, const std::vector<LD>& f)
    {
        const int nC = g.numberSmootherCircles(), nr = g.nr(), nt = g.ntheta();
        for (int colour = 0; colour < 2; colour++) { // 0 black, 1 white
            std::vector<LD> xnew = x;
            for (int i = 0; i < nC; i++) {
                const bool black = ((nC - 1 - i) % 2) == 0; // outermost circle is black
                if (black != (colour == 0))
                    continue;
                std::vector<int> line;
                for (int j = 0; j < nt; j++)
                    if (isFree(i, j))
                        line.push_back(g.index(i, j));
                relaxLine(line, x, xnew, f);
            }
            x = xnew;
        }
        for (int colour = 0; colour < 2; colour++) {
            std::vector<LD> xnew = x;
            for (int j = colour; j < nt; j += 2) {
                std::vector<int> line;
                for (int i = nC; i < nr; i++)
                    if (isFree(i, j))
                        line.push_back(g.index(i, j));
                relaxLine(line, x, xnew, f);
            }
            x = xnew;
        }
    }
};

inline Outcome runSmootherCase(const KV& c, bool extrapolated)
{
    Outcome o;
    setVectorScaleExp(c, o);
    ProblemSpec p      = ProblemSpec::get(c);
    const int threads  = (int)c.getI("threads");
    const bool carryBC = c.getI("carry_bc", 0) != 0;
    const bool model   = c.getI("model", 1) != 0;
    Hierarchy H; // cached (take needs it)
    H.build(p, true, true, 0);
    Hierarchy Hg; // give with generated cache flags
    Hg.build(p, c.getI("cache_coef", 1) != 0, c.getI("cache_geom", 1) != 0, 0);
    const PolarGrid& g = H.levels[0]->grid();
    const int n = g.numberOfNodes(), nr = g.nr(), nt = g.ntheta(), nC = g.numberSmootherCircles();
    RefOp ref(g, *H.geometry, *H.coefficients, p.dirbc);
    for (auto d : ref.det)
        if (!(fabsl(d) > 0)) {
            o.cls("discarded_degenerate_mapping");
            return o;
        }
    if (nC < (extrapolated ? 3 : 2) || nr - nC < 3 || nt % 4 != 0 || (extrapolated && nr % 2 == 0)) {
        o.fail("bad_case", "grid outside the documented smoothing domain");
        return o;
    }
    o.signature = p.sig() + "c" + std::to_string(nC) + "t" + std::to_string(threads) + (model ? "M" : "I") + (carryBC ? "B" : "");
    o.cls(std::string("geom_") + kGeomNames[p.geom]);
    o.cls(p.dirbc ? "dirbc" : "across_origin");
    o.cls(nC % 2 ? "circles_odd" : "circles_even");
    if (threads > 1)
        o.cls("multithreaded");
    if (n > 10000)
        o.cls(threads > 1 ? "nodes_gt_10000_multithreaded" : "nodes_gt_10000");
    if (model)
        o.cls("model_compared");

    Vector<double> x0 = makeVector(g, (int)c.getI("x_kind"), c.getU("x_seed"));
    Vector<double> f  = makeVector(g, (int)c.getI("f_kind"), c.getU("f_seed"));
    if (carryBC)
        for (int j = 0; j < nt; j++) {
            x0[g.index(nr - 1, j)] = f[g.index(nr - 1, j)];
            if (p.dirbc)
                x0[g.index(0, j)] = f[g.index(0, j)];
        }
    // implementations
    Vector<double> xt = x0, xg = x0, tmp1(n), tmp2(n);
    for (int i = 0; i < n; i++) {
        tmp1[i] = 1e300; // scratch holds garbage
        tmp2[i] = -1e300;
    }
    omp_set_num_threads(threads);
    if (c.getI("via_level", 0)) {
        // through the Level interface the solver uses, on Level objects that were first initialised for the OTHER
        // boundary mode: re-initialising a level replaces its smoother
        o.cls("via_level_reinitialised");
        Level& Lt = *H.levels[0];
        Level& Lg = *Hg.levels[0];
        for (int pass = 0; pass < 2; pass++) {
            const bool bc = pass == 0 ? !p.dirbc : p.dirbc;
            if (!extrapolated) {
                Lt.initializeSmoothing(*H.geometry, *H.coefficients, bc, threads, StencilDistributionMethod::CPU_TAKE);
                Lg.initializeSmoothing(*Hg.geometry, *Hg.coefficients, bc, threads, StencilDistributionMethod::CPU_GIVE);
            }
            else {
                Lt.initializeExtrapolatedSmoothing(*H.geometry, *H.coefficients, bc, threads, StencilDistributionMethod::CPU_TAKE);
                Lg.initializeExtrapolatedSmoothing(*Hg.geometry, *Hg.coefficients, bc, threads, StencilDistributionMethod::CPU_GIVE);
            }
        }
        omp_set_num_threads(threads);
        if (!extrapolated) {
            Lt.smoothing(xt, f, tmp1);
            Lg.smoothing(xg, f, tmp2);
        }
        else {
            Lt.extrapolatedSmoothing(xt, f, tmp1);
            Lg.extrapolatedSmoothing(xg, f, tmp2);
        }
    }
    else if (!extrapolated) {
        SmootherTake st(g, H.levels[0]->levelCache(), *H.geometry, *H.coefficients, p.dirbc, threads);
        SmootherGive sg(Hg.levels[0]->grid(), Hg.levels[0]->levelCache(), *Hg.geometry, *Hg.coefficients, p.dirbc, threads);
        omp_set_num_threads(threads);
        if (c.getI("smoother_copy", 0)) {
            // the sweep runs on copy-constructed smoother objects (the originals are destroyed first)
            o.cls("sweep_on_copied_smoother");
            auto pt = std::make_unique<SmootherTake>(st);
            auto pg = std::make_unique<SmootherGive>(sg);
            if (c.getI("smoother_copy", 0) == 2) {
                // ... and the object that is copied has already swept (its line solvers hold factors, not matrices)
                o.cls("copied_smoother_had_swept");
                Vector<double> sx = xt, sy = xg, st1(xt.size()), st2v(xg.size());
                pt->smoothing(sx, f, st1);
                pg->smoothing(sy, f, st2v);
            }
            SmootherTake st2(*pt);
            SmootherGive sg2(*pg);
            pt.reset();
            pg.reset();
            st2.smoothing(xt, f, tmp1);
            sg2.smoothing(xg, f, tmp2);
        }
        else {
            st.smoothing(xt, f, tmp1);
            sg.smoothing(xg, f, tmp2);
        }
    }
    else {
        ExtrapolatedSmootherTake st(g, H.levels[0]->levelCache(), *H.geometry, *H.coefficients, p.dirbc, threads);
        ExtrapolatedSmootherGive sg(Hg.levels[0]->grid(), Hg.levels[0]->levelCache(), *Hg.geometry, *Hg.coefficients, p.dirbc, threads);
        omp_set_num_threads(threads);
        if (c.getI("smoother_copy", 0)) {
            o.cls("sweep_on_copied_smoother");
            auto pt = std::make_unique<ExtrapolatedSmootherTake>(st);
            auto pg = std::make_unique<ExtrapolatedSmootherGive>(sg);
            if (c.getI("smoother_copy", 0) == 2) {
                o.cls("copied_smoother_had_swept");
                Vector<double> sx = xt, sy = xg, st1(xt.size()), st2v(xg.size());
                pt->extrapolatedSmoothing(sx, f, st1);
                pg->extrapolatedSmoothing(sy, f, st2v);
            }
            ExtrapolatedSmootherTake st2(*pt);
            ExtrapolatedSmootherGive sg2(*pg);
            pt.reset();
            pg.reset();
            st2.extrapolatedSmoothing(xt, f, tmp1);
            sg2.extrapolatedSmoothing(xg, f, tmp2);
        }
        else {
            st.extrapolatedSmoothing(xt, f, tmp1);
            sg.extrapolatedSmoothing(xg, f, tmp2);
        }
    }
    omp_set_num_threads(1);
    LD xscale = 0;
    for (int i = 0; i < n; i++) {
        if (!std::isfinite(xt[i]) || !std::isfinite(xg[i])) {
            o.fail("finite", "smoother output is not finite");
            return o;
        }
        xscale = std::max(xscale, std::max(fabsl((LD)xt[i]), fabsl((LD)x0[i])));
    }
    const char* names[2] = {"take", "give"};
    const Vector<double>* outs[2] = {&xt, &xg};

    // (C07 i) nodes of the next coarser grid are returned bit for bit
    if (extrapolated)
        for (int w = 0; w < 2; w++)
            for (int i = 0; i < nr; i += 2)
                for (int j = 0; j < nt; j += 2) {
                    const int k = g.index(i, j);
                    if (std::memcmp(&(*outs[w])[k], &x0[k], sizeof(double)) != 0) {
                        o.fail("coarse_node_moved", std::string(names[w]) + ": coarse node (" + std::to_string(i) + "," + std::to_string(j) +
                                                        ") changed from " + KV::d2s(x0[k]) + " to " + KV::d2s((*outs[w])[k]));
                        return o;
                    }
                }
    // (iv) Dirichlet nodes carry the prescribed data afterwards
    for (int w = 0; w < 2; w++)
        for (int j = 0; j < nt; j++) {
            for (int i : {0, nr - 1}) {
                if (i == 0 && !p.dirbc)
                    continue;
                if (extrapolated && !(i & 1) && !(j & 1))
                    continue; // coarse nodes are not touched by the extrapolated smoother
                const int k = g.index(i, j);
                if (std::fabs((*outs[w])[k] - f[k]) > 2 * SEPS * std::fabs(f[k])) {
                    o.fail("dirichlet_value", std::string(names[w]) + ": Dirichlet node (" + std::to_string(i) + "," + std::to_string(j) +
                                                  ") is not set to the boundary data");
                    return o;
                }
            }
        }
    // (ii) residual vanishes on the colour updated last: white radial lines (odd i_theta), free nodes
    for (int w = 0; w < 2; w++) {
        std::vector<LD> Ax, mag;
        ref.applyMag(*outs[w], Ax, mag);
        for (int j = 1; j < nt; j += 2)
            for (int i = nC; i < nr; i++) {
                const int k  = g.index(i, j);
                const LD r   = fabsl((LD)f[k] - Ax[k]);
                const LD tol = 64 * SEPS * (mag[k] + fabsl((LD)f[k]));
                if (tol > 0)
                    o.mx("white_radial_residual_over_tol", (double)(r / tol));
                if (r > tol) {
                    char buf[256];
                    snprintf(buf, sizeof buf, "%s: residual %.3Le at node (%d,%d) of a white radial line after the sweep (tol %.3Le)",
                             names[w], r, i, j, tol);
                    o.fail("residual_last_colour", buf);
                    return o;
                }
            }
        // consequence of the documented order (white circles are adjacent only to black circles): counted, and
        // enforced with the looser normwise bound of the cyclic solver
        for (int i = 0; i < nC; i++) {
            if (((nC - 1 - i) % 2) == 0)
                continue;
            LD rowmax = 0;
            for (int j = 0; j < nt; j++)
                rowmax = std::max(rowmax, mag[g.index(i, j)] + fabsl((LD)f[g.index(i, j)]));
            for (int j = 0; j < nt; j++) {
                if (extrapolated && !(i & 1) && !(j & 1))
                    continue;
                const int k = g.index(i, j);
                const LD r  = fabsl((LD)f[k] - Ax[k]);
                const LD tol = 64 * nt * SEPS * rowmax;
                if (tol > 0)
                    o.mx("white_circle_residual_over_tol", (double)(r / tol));
                if (r > tol) {
                    char buf[256];
                    snprintf(buf, sizeof buf, "%s: residual %.3Le at node (%d,%d) of a white circle after the sweep (tol %.3Le)", names[w],
                             r, i, j, tol);
                    o.fail("residual_white_circle", buf);
                    return o;
                }
            }
        }
    }
    if (!model) {
        // without the model: both strategies agree (the black lines are not covered by the residual invariant), and on
        // grids above the parallel-assembly threshold the multi-threaded objects agree with single-threaded ones
        LD d = 0;
        for (int k = 0; k < n; k++)
            d = std::max(d, fabsl((LD)xt[k] - (LD)xg[k]));
        o.mx("give_take_rel_diff_without_model", (double)(d / (xscale + 1e-300L)));
        if (d > 1e-4L * xscale) { // line systems reach condition numbers of 1e8+ (R0 = 1e-8): rounding alone gives 1e-7
            char buf[200];
            snprintf(buf, sizeof buf, "give and take smoothing differ by %.3Le (scale %.3Le) on a %dx%d grid", d, xscale, nr, nt);
            o.fail("give_take", buf);
            return o;
        }
        if (n > 10000 && threads > 1) {
            Vector<double> yt = x0, yg = x0, t3(n), t4(n);
            omp_set_num_threads(1);
            if (!extrapolated) {
                SmootherTake st(g, H.levels[0]->levelCache(), *H.geometry, *H.coefficients, p.dirbc, 1);
                SmootherGive sg(Hg.levels[0]->grid(), Hg.levels[0]->levelCache(), *Hg.geometry, *Hg.coefficients, p.dirbc, 1);
                st.smoothing(yt, f, t3);
                sg.smoothing(yg, f, t4);
            }
            else {
                ExtrapolatedSmootherTake st(g, H.levels[0]->levelCache(), *H.geometry, *H.coefficients, p.dirbc, 1);
                ExtrapolatedSmootherGive sg(Hg.levels[0]->grid(), Hg.levels[0]->levelCache(), *Hg.geometry, *Hg.coefficients, p.dirbc, 1);
                st.extrapolatedSmoothing(yt, f, t3);
                sg.extrapolatedSmoothing(yg, f, t4);
            }
            LD dt = 0, dg = 0;
            for (int k = 0; k < n; k++) {
                dt = std::max(dt, fabsl((LD)xt[k] - (LD)yt[k]));
                dg = std::max(dg, fabsl((LD)xg[k] - (LD)yg[k]));
            }
            if (dt > 1e-6L * xscale || dg > 1e-4L * xscale) {
                char buf[240];
                snprintf(buf, sizeof buf, "sweep with %d threads differs from the single-threaded sweep on a %dx%d grid: take %.3Le, give %.3Le (scale %.3Le)",
                         threads, nr, nt, dt, dg, xscale);
                o.fail("parallel_vs_serial_large", buf);
                return o;
            }
            o.cls("large_parallel_vs_serial_compared");
        }
    }
    bool hasBoth = nC >= 2 && nt >= 4;
    o.nontrivial = hasBoth;
    if (!model)
        return o;

    // ---- model comparison on the probed matrix (take's residual operator; C03 shows give is the same operator)
    ResidualTake rop(g, H.levels[0]->levelCache(), *H.geometry, *H.coefficients, p.dirbc, 1);
    DMat A = probeMatrix(rop, g);
    ZebraModel zm(g, A, extrapolated);
    std::vector<LD> xm(n), fl(n);
    for (int i = 0; i < n; i++) {
        xm[i] = x0[i];
        fl[i] = f[i];
    }
    zm.sweep(xm, fl);
    LD mscale = xscale;
    for (int i = 0; i < n; i++)
        mscale = std::max(mscale, fabsl(xm[i]));
    const LD mtol = 32 * SEPS * zm.kappaMax * mscale;
    o.mx("log10_kappa_line_max", (double)log10l(zm.kappaMax));
    for (int w = 0; w < 2; w++)
        for (int k = 0; k < n; k++) {
            const LD d = fabsl((LD)(*outs[w])[k] - xm[k]);
            o.mx("model_diff_over_tol", (double)(d / mtol));
            if (d > mtol) {
                int i, j;
                g.multiIndex(k, i, j);
                char buf[300];
                snprintf(buf, sizeof buf, "%s: node (%d,%d) is %.17g, exact zebra relaxation gives %.17Lg (diff %.3Le, tol %.3Le)", names[w], i,
                         j, (*outs[w])[k], xm[k], d, mtol);
                o.fail("model_equality", buf);
                return o;
            }
        }
    // (v) both strategies identical up to rounding
    for (int k = 0; k < n; k++)
        if (fabsl((LD)xt[k] - (LD)xg[k]) > 2 * mtol) {
            o.fail("give_take", "give and take smoothing differ beyond rounding at index " + std::to_string(k));
            return o;
        }
    // (iii) the exact discrete solution is a fixed point; for C07: solution of the system restricted to free nodes
    //       (coarse nodes keep arbitrary values, rhs made consistent)
    {
        DenseLU lu(A);
        std::vector<LD> xs;
        Vector<double> fs(n);
        if (!extrapolated) {
            xs = lu.solve(fl);
            for (int i = 0; i < n; i++)
                fs[i] = f[i];
        }
        else {
            // pick x* = x0 (arbitrary) and set f* := A x*: then every line residual vanishes, x* is a fixed point
            xs.assign(n, 0);
            for (int i = 0; i < n; i++)
                xs[i] = x0[i];
            std::vector<LD> fx = A.mul(xs);
            for (int i = 0; i < n; i++)
                fs[i] = (double)fx[i];
        }
        Vector<double> ys(n), tmp(n);
        LD sn = 0;
        for (int i = 0; i < n; i++) {
            ys[i] = (double)xs[i];
            sn    = std::max(sn, fabsl(xs[i]));
        }
        // conditioning of the whole system enters through the rounding of x* and f*
        const LD kap  = A.normInf() * lu.invNormInf();
        const LD ftol = 64 * SEPS * std::max(zm.kappaMax, (LD)1) * (sn + 1e-300L) * (extrapolated ? 1 : 1) +
                        (extrapolated ? 0 : 0);
        for (int w = 0; w < 2; w++) {
            Vector<double> y = ys;
            omp_set_num_threads(threads);
            if (!extrapolated) {
                if (w == 0) {
                    SmootherTake s(g, H.levels[0]->levelCache(), *H.geometry, *H.coefficients, p.dirbc, threads);
                    s.smoothing(y, fs, tmp);
                }
                else {
                    SmootherGive s(Hg.levels[0]->grid(), Hg.levels[0]->levelCache(), *Hg.geometry, *Hg.coefficients, p.dirbc, threads);
                    s.smoothing(y, fs, tmp);
                }
            }
            else {
                if (w == 0) {
                    ExtrapolatedSmootherTake s(g, H.levels[0]->levelCache(), *H.geometry, *H.coefficients, p.dirbc, threads);
                    s.extrapolatedSmoothing(y, fs, tmp);
                }
                else {
                    ExtrapolatedSmootherGive s(Hg.levels[0]->grid(), Hg.levels[0]->levelCache(), *Hg.geometry, *Hg.coefficients, p.dirbc,
                                               threads);
                    s.extrapolatedSmoothing(y, fs, tmp);
                }
            }
            omp_set_num_threads(1);
            LD dmax = 0;
            for (int i = 0; i < n; i++)
                dmax = std::max(dmax, fabsl((LD)y[i] - (LD)ys[i]));
            // the residual of the rounded x* is ~eps*|A||x*|; a line solve maps it back with |A_LL^-1|
            LD rmax = 0;
            {
                std::vector<LD> Ay, mg;
                ref.applyMag(ys, Ay, mg);
                for (int i = 0; i < n; i++)
                    rmax = std::max(rmax, mg[i] + fabsl((LD)fs[i]));
            }
            (void)kap;
            (void)rmax;
            o.mx("fixed_point_move_over_tol", (double)(dmax / ftol));
            if (dmax > ftol) {
                char buf[256];
                snprintf(buf, sizeof buf, "%s: the exact discrete solution moves by %.3Le under one sweep (tol %.3Le, |x*|=%.3Le)", names[w],
                         dmax, ftol, sn);
                o.fail("fixed_point", buf);
                return o;
            }
        }
        // (vi) once the boundary values carry the data a sweep never increases the energy norm of the error
        if (!extrapolated && carryBC) {
            std::vector<int> inner;
            for (int i = 0; i < nr; i++)
                if (!ref.isDirichlet(i))
                    for (int j = 0; j < nt; j++)
                        inner.push_back(g.index(i, j));
            auto energy = [&](const Vector<double>& v) {
                LD e = 0;
                for (int a : inner)
                    for (int b : inner)
                        if (A(a, b) != 0)
                            e += ((LD)v[a] - xs[a]) * 0.5L * (A(a, b) + A(b, a)) * ((LD)v[b] - xs[b]);
                return e;
            };
            const LD e0 = energy(x0);
            for (int w = 0; w < 2; w++) {
                const LD e1 = energy(*outs[w]);
                if (e0 > 0)
                    o.mx("energy_ratio", (double)(e1 / e0));
                if (e1 > e0 * (1 + 1e-9L) + 1e-20L * fabsl(e0)) {
                    char buf[200];
                    snprintf(buf, sizeof buf, "%s: energy norm of the error grows from %.6Le to %.6Le", names[w], sqrtl(fabsl(e0)),
                             sqrtl(fabsl(e1)));
                    o.fail("energy_norm", buf);
                    return o;
                }
            }
            o.cls("energy_checked");
        }
    }
    return o;
}

#ifndef VERIF_NO_RAPIDCHECK
inline KV genSmootherCase(bool extrapolated)
{
    KV c;
    const bool model = rint(0, 3) != 0;
    GridOpts go;
    go.nr_min   = 5;
    go.nr_max   = model ? 15 : 33;
    go.nt_min   = 4;
    go.nt_max   = model ? 24 : 64;
    if (!model && rint(0, 7) == 0) {
        // above 10 000 nodes the smoothers assemble their line matrices inside `omp parallel if (n > 10'000)`: the
        // invariant oracles (residual on the last colour, boundary data, give == take, coarse nodes) on such grids
        go.nr_min = 65;
        go.nr_max = 97;
        go.nt_min = 160;
        go.nt_max = 256;
    }
    go.nt_mult4 = true;
    go.coarsenable = extrapolated;
    go.min_circles = extrapolated ? 3 : 2;
    go.min_radial  = 3;
    ProblemSpec p  = genProblem(go);
    if (p.nr() < go.min_circles + go.min_radial) {
        // make room for both sections
        p.radii = genRadii(go.min_circles + go.min_radial + (extrapolated ? 1 : 0), 0, p.radii.front(), p.radii.back());
        p.split_mode = 0;
    }
    p.put(c);
    c.putI("threads", rpick({1, 1, 2, 3, 4, 7, 16}));
    c.putI("cache_coef", rbool());
    c.putI("cache_geom", rbool());
    c.putI("x_kind", rweighted({4, 3, 1, 1, 1, 1}));
    c.putU("x_seed", rseed());
    c.putI("vec_scale_exp", rpick({0, 0, 0, 0, 0, 0, -300, -100, 100, 300}));
    c.putI("f_kind", rweighted({4, 3, 1, 1, 1, 1}));
    c.putU("f_seed", rseed());
    c.putI("carry_bc", rbool());
    c.putI("via_level", rweighted({4, 1}));
    c.putI("smoother_copy", rweighted({6, 1, 1}));
    c.putI("model", model);
    return c;
}
#endif
