// Campaign / replay driver shared by all rapidcheck harnesses.
//
//   harness --replay FILE                      run exactly that case (no generator involved)
//   harness --campaign --out DIR --worker K    run a generated campaign (RC_PARAMS from env)
//
// The property body serialises each case to DIR/cur_K.case *before* executing it (so a
// sanitizer abort still leaves the input behind), classifies it, and on an oracle failure
// writes DIR/fail_K.case. rapidcheck then shrinks; the last failing case written is the
// minimal one. Counters go to DIR/stats_K.json.
#pragma once
#include "kv.h"
#include <algorithm>
#include <chrono>
#include <functional>
#include <iostream>
#include <map>
#include <set>
#include <unistd.h>
#include <fcntl.h>
#include <sys/wait.h>

struct Outcome {
    bool ok = true;
    std::string oracle; // which oracle failed
    std::string msg;
    bool nontrivial = false;
    std::string signature; // distinctness key
    std::vector<std::string> classes; // class counters hit by this case
    std::map<std::string, double> maxima; // observed error/bound ratios etc.
    std::map<std::string, long> counts; // additive counters (e.g. excluded_known)
    bool inconclusive = false;

    void fail(const std::string& orc, const std::string& m)
    {
        if (ok) {
            ok     = false;
            oracle = orc;
            msg    = m;
        }
    }
    void cls(const std::string& c)
    {
        classes.push_back(c);
    }
    void mx(const std::string& k, double v)
    {
        auto it = maxima.find(k);
        if (it == maxima.end() || v > it->second)
            maxima[k] = v;
    }
    void cnt(const std::string& k, long v = 1)
    {
        counts[k] += v;
    }
};

inline std::string jsonEscape(const std::string& s)
{
    std::string o;
    for (unsigned char c : s) {
        if (c == '"')
            o += "\\\"";
        else if (c == '\\')
            o += "\\\\";
        else if (c == '\n')
            o += "\\n";
        else if (c < 0x20) {
            char b[8];
            snprintf(b, sizeof b, "\\u%04x", c);
            o += b;
        }
        else
            o += c;
    }
    return o;
}

struct Stats {
    long evaluations = 0, failures = 0, inconclusive = 0;
    std::set<uint64_t> nontrivial;
    std::map<std::string, long> classes;
    std::map<std::string, double> maxima;
    std::map<std::string, long> counts;
    std::vector<std::string> samples;
    std::string path;

    void record(const KV& c, const Outcome& o)
    {
        evaluations++;
        if (!o.ok)
            failures++;
        if (o.inconclusive)
            inconclusive++;
        for (auto& cl : o.classes)
            classes[cl]++;
        for (auto& m : o.maxima) {
            auto it = maxima.find(m.first);
            if (it == maxima.end() || m.second > it->second)
                maxima[m.first] = m.second;
        }
        for (auto& m : o.counts)
            counts[m.first] += m.second;
        if (o.nontrivial) {
            bool fresh = nontrivial.insert(fnv1a(o.signature)).second;
            // spread samples over the run: keep the first 3 and then every 2^k-th fresh one
            if (fresh && (samples.size() < 3 || (samples.size() < 8 && (nontrivial.size() & (nontrivial.size() - 1)) == 0)))
                samples.push_back(c.pretty(300));
        }
    }
    void flush() const
    {
        if (path.empty())
            return;
        std::string tmp = path + ".tmp";
        FILE* f         = fopen(tmp.c_str(), "w");
        if (!f)
            return;
        fprintf(f, "{\"evaluations\":%ld,\"failures\":%ld,\"inconclusive\":%ld,\n\"nontrivial_hashes\":[", evaluations,
                failures, inconclusive);
        bool first = true;
        for (auto h : nontrivial) {
            fprintf(f, "%s\"%016" PRIx64 "\"", first ? "" : ",", h);
            first = false;
        }
        fprintf(f, "],\n\"classes\":{");
        first = true;
        for (auto& c : classes) {
            fprintf(f, "%s\"%s\":%ld", first ? "" : ",", jsonEscape(c.first).c_str(), c.second);
            first = false;
        }
        fprintf(f, "},\n\"counts\":{");
        first = true;
        for (auto& c : counts) {
            fprintf(f, "%s\"%s\":%ld", first ? "" : ",", jsonEscape(c.first).c_str(), c.second);
            first = false;
        }
        fprintf(f, "},\n\"maxima\":{");
        first = true;
        for (auto& c : maxima) {
            double v = c.second;
            if (!(v == v) || v > 1e300 || v < -1e300)
                v = 1e300;
            fprintf(f, "%s\"%s\":%.6g", first ? "" : ",", jsonEscape(c.first).c_str(), v);
            first = false;
        }
        fprintf(f, "},\n\"samples\":[");
        first = true;
        for (auto& s : samples) {
            fprintf(f, "%s\"%s\"", first ? "" : ",", jsonEscape(s).c_str());
            first = false;
        }
        fprintf(f, "]}\n");
        fclose(f);
        std::rename(tmp.c_str(), path.c_str());
    }
};

inline Stats& globalStats()
{
    static Stats s;
    return s;
}

using GenFn = std::function<KV()>;
using RunFn = std::function<Outcome(const KV&)>;

struct HarnessArgs {
    std::string replay, out = ".", mode;
    int worker = 0;
    std::map<std::string, std::string> extra;
    std::string get(const std::string& k, const std::string& d = "") const
    {
        auto it = extra.find(k);
        return it == extra.end() ? d : it->second;
    }
};

inline HarnessArgs& harnessArgs()
{
    static HarnessArgs a;
    return a;
}

inline HarnessArgs parseArgs(int argc, char** argv)
{
    HarnessArgs a;
    for (int i = 1; i < argc; i++) {
        std::string s = argv[i];
        if (s == "--replay" && i + 1 < argc) {
            a.replay = argv[++i];
            a.mode   = "replay";
        }
        else if (s == "--campaign")
            a.mode = "campaign";
        else if (s == "--out" && i + 1 < argc)
            a.out = argv[++i];
        else if (s == "--worker" && i + 1 < argc)
            a.worker = atoi(argv[++i]);
        else if (s.rfind("--", 0) == 0 && i + 1 < argc) {
            a.extra[s.substr(2)] = argv[i + 1];
            ++i;
        }
    }
    harnessArgs() = a;
    return a;
}

// A case file may carry one earlier case of the same process (keys prefixed "earlier."): it is executed first and its
// outcome ignored. This makes "the outcome of a case does not depend on what the process did before" replayable: a failure
// that needs state left behind by an earlier case (a function-local static, a shared cache in the code under test) is
// saved as the pair.
inline KV earlierPart(const KV& c)
{
    KV e;
    for (auto& it : c.items)
        if (it.first.rfind("earlier.", 0) == 0)
            e.items.emplace_back(it.first.substr(8), it.second);
    return e;
}
inline KV withEarlier(const KV& c, const KV& earlier)
{
    KV r;
    for (auto& it : c.items)
        if (it.first.rfind("earlier.", 0) != 0)
            r.items.push_back(it);
    for (auto& it : earlier.items)
        if (it.first.rfind("earlier.", 0) != 0 && it.first != "fail_oracle" && it.first != "fail_msg")
            r.items.emplace_back("earlier." + it.first, it.second);
    return r;
}

inline int runReplay(const HarnessArgs& a, const RunFn& run)
{
    KV c = KV::load(a.replay);
    KV e = earlierPart(c);
    if (!e.items.empty()) {
        try {
            (void)run(e);
        }
        catch (const std::exception&) {
        }
    }
    Outcome o;
    try {
        o = run(c);
    }
    catch (const std::exception& e) {
        o.fail("unexpected_exception", std::string("unexpected exception: ") + e.what());
    }
    if (o.ok) {
        std::cout << "REPLAY-PASS" << (o.inconclusive ? " (inconclusive)" : "") << std::endl;
        for (auto& m : o.maxima)
            std::cout << "  max " << m.first << " = " << m.second << "\n";
        return 0;
    }
    std::cout << "REPLAY-FAIL oracle=" << o.oracle << " : " << o.msg << std::endl;
    return 1;
}

#ifndef VERIF_NO_RAPIDCHECK
    #include <rapidcheck.h>

// uniform integer in [a,b], independent of rapidcheck's current size
inline int rint(int a, int b)
{
    return *rc::gen::resize(rc::kNominalSize, rc::gen::inRange(a, b + 1));
}
inline uint64_t rseed()
{
    return (uint64_t)(*rc::gen::resize(rc::kNominalSize, rc::gen::inRange<int64_t>(0, (int64_t)1 << 40)));
}
inline bool rbool()
{
    return rint(0, 1) == 1;
}
// uniform double in [a,b] with 2^20 steps (shrinks towards a)
inline double runi(double a, double b)
{
    return a + (b - a) * (rint(0, 1 << 20) / double(1 << 20));
}
template <typename T>
inline T rpick(std::initializer_list<T> l)
{
    std::vector<T> v(l);
    return v[rint(0, (int)v.size() - 1)];
}
// weighted index
inline int rweighted(std::initializer_list<int> w)
{
    int tot = 0;
    for (int x : w)
        tot += x;
    int r = rint(0, tot - 1), i = 0;
    for (int x : w) {
        if (r < x)
            return i;
        r -= x;
        i++;
    }
    return 0;
}

inline int runCampaign(const HarnessArgs& a, const std::string& name, const GenFn& gen, const RunFn& run)
{
    Stats& st              = globalStats();
    st.path                = a.out + "/stats_" + std::to_string(a.worker) + ".json";
    const std::string cur  = a.out + "/cur_" + std::to_string(a.worker) + ".case";
    const std::string fail = a.out + "/fail_" + std::to_string(a.worker) + ".case";
    std::remove(fail.c_str());
    auto lastFlush = std::chrono::steady_clock::now();
    // Shrinking is bounded by a number of evaluations (not by time): once a failing case exists, at most this many further
    // candidates are executed; later candidates are declared passing unexecuted, which ends rapidcheck's shrink loop with
    // the smallest failing case found so far (already saved). Expensive harnesses (ThreadSanitizer children) set it low.
    const char* msEnv       = getenv("VERIF_MAX_SHRINK_EVALS");
    const long maxShrink    = msEnv ? atol(msEnv) : 400;
    const bool freshConfirm = getenv("VERIF_FRESH_CONFIRM") != nullptr;
    long evalsAfterFailure  = 0;
    bool haveFailure        = false;
    std::vector<KV> history; // cases executed earlier in this process
    KV frozenPrev;           // the earlier case a history-dependent failure was reproduced with
    bool ok = rc::check(name, [&] {
        KV c = gen();
        if (haveFailure && ++evalsAfterFailure > maxShrink)
            return;
        c.save(cur);
        Outcome o;
        try {
            o = run(c);
        }
        catch (const std::exception& e) {
            o.fail("unexpected_exception", std::string("unexpected exception: ") + e.what());
        }
        st.record(c, o);
        // periodic flush: a worker that is stopped at its wall-clock budget still reports what it covered
        if (std::chrono::steady_clock::now() - lastFlush > std::chrono::seconds(15)) {
            st.flush();
            lastFlush = std::chrono::steady_clock::now();
        }
        if (!o.ok && freshConfirm) {
            // Deterministic harnesses: a failure must be a function of the case alone. It is re-run in a fresh process
            // through the plain replay path; if it passes there, the failure came from state that an earlier case left
            // behind in this process (e.g. a function-local static in the code under test) - it is counted and the
            // campaign goes on looking for a self-contained reproducer (the driver reports such counts as inconclusive).
            const std::string probe = a.out + "/probe_" + std::to_string(a.worker) + ".case";
            auto passesFresh = [&](const KV& k) {
                k.save(probe);
                fflush(nullptr);
                pid_t pid = fork();
                if (pid == 0) {
                    int fd = open("/dev/null", O_WRONLY);
                    if (fd >= 0) {
                        dup2(fd, 1);
                        dup2(fd, 2);
                    }
                    execl("/proc/self/exe", "harness", "--replay", probe.c_str(), (char*)nullptr);
                    _exit(127);
                }
                int status = 0;
                waitpid(pid, &status, 0);
                return WIFEXITED(status) && WEXITSTATUS(status) == 0;
            };
            if (passesFresh(c)) {
                // not a function of the case alone: does it reproduce together with ONE case executed earlier in this
                // process (the one just before it, the first ones, the most recent ones; at most 40 attempts)?
                std::vector<const KV*> cand;
                if (haveFailure)
                    cand.push_back(&frozenPrev);
                else {
                    const int H = (int)history.size();
                    for (int i = H - 1; i >= std::max(0, H - 24); i--)
                        cand.push_back(&history[i]);
                    for (int i = 0; i < std::min(16, H - 24); i++)
                        cand.push_back(&history[i]);
                }
                bool found = false;
                for (const KV* before : cand) {
                    if (before->items.empty())
                        continue;
                    KV pair = withEarlier(c, *before);
                    if (!passesFresh(pair)) {
                        if (!haveFailure)
                            frozenPrev = *before;
                        c = pair;
                        o.msg += " [only after an earlier case in the same process: its outcome depends on state left behind]";
                        st.counts["failures_depending_on_an_earlier_case"]++;
                        found = true;
                        break;
                    }
                }
                if (!found) {
                    st.counts["failures_not_reproducible_in_fresh_process"]++;
                    st.flush();
                    return;
                }
            }
        }
        if (o.ok && freshConfirm && !haveFailure) {
            // remembered as possible "earlier case" of a later history-dependent failure (first 16 and last 24 kept)
            if (history.size() < 16)
                history.push_back(c);
            else {
                if (history.size() >= 40)
                    history.erase(history.begin() + 16);
                history.push_back(c);
            }
        }
        if (!o.ok) {
            KV f = c;
            f.putS("fail_oracle", o.oracle);
            f.putS("fail_msg", o.msg);
            f.save(fail);
            haveFailure = true;
            st.flush();
            RC_FAIL(o.oracle + ": " + o.msg);
        }
    });
    st.flush();
    return ok ? 0 : 1;
}
#endif

inline int harnessMain(int argc, char** argv, const std::string& name, const GenFn& gen, const RunFn& run)
{
    HarnessArgs a = parseArgs(argc, argv);
    if (a.mode == "replay")
        return runReplay(a, run);
#ifndef VERIF_NO_RAPIDCHECK
    if (a.mode == "campaign")
        return runCampaign(a, name, gen, run);
#endif
    std::cerr << "usage: " << argv[0] << " --replay FILE | --campaign --out DIR --worker K\n";
    return 2;
}
