// FLAVOURS: rel asan
// C10: each multigrid cycle is a consistent correction scheme.
//   SolverCfg (grid/problem/levels/strategy/BC) + cycle (0 V,1 W,2 F), extrap (0/1), fgs (full grid smoothing 0/1),
//   nu1, nu2, mode (0 differential, 1 fixed point), u_kind/u_seed, pollute_seed
#include "engine.h"
#include "problem.h"
#include "solver_cfg.h"
#include "ref_cycle.h"

static const double EPS = 2.220446049250313e-16;

static void pollute(GMGPolar& s, uint64_t seed, bool alsoLevel0Residual)
{
    auto& L = GMGPolarVerifAccess::levels(s);
    Rnd r(seed);
    auto fill = [&](Vector<double>& v) {
        for (int i = 0; i < v.size(); i++)
            v[i] = (r.uni() - 0.5) * 2e6;
    };
    for (size_t d = 1; d < L.size(); d++) {
        fill(L[d].solution());
        fill(L[d].residual());
        fill(L[d].error_correction());
    }
    if (alsoLevel0Residual)
        fill(L[0].residual());
}

static Outcome runCase(const KV& c)
{
    Outcome o;
    SolverCfg cfg   = SolverCfg::get(c);
    const int cycle = (int)c.getI("cycle"), extrap = (int)c.getI("extrap"), fgs = (int)c.getI("fgs"), nu1 = (int)c.getI("nu1"),
              nu2 = (int)c.getI("nu2"), mode = (int)c.getI("mode");
    cfg.extrapolation = 3; // COMBINED: both smoothers and the level-1 right-hand side exist
    // fmg_first: the object runs the full-multigrid start-up (as solve() does first) before the cycles are examined
    const bool fmgFirst = c.getI("fmg_first", 0) != 0;
    cfg.fmg             = fmgFirst ? 1 : 0;
    std::unique_ptr<GMGPolar> s = cfg.make();
    try {
        s->setup();
    }
    catch (const std::exception&) {
        o.cls("rejected_by_exception");
        return o;
    }
    s->preSmoothingSteps(nu1);
    s->postSmoothingSteps(nu2);
    // 'verbose' is a diagnostic option: a cycle must do the same arithmetic whatever is printed (stdout is discarded)
    const int verbosity = (int)c.getI("verbose", 0);
    s->verbose(verbosity);
    if (verbosity > 0)
        o.cls("verbose_" + std::to_string(verbosity));
    StdoutSilencer quiet(verbosity > 0);
    GMGPolarVerifAccess::fullGridSmoothing(*s) = fgs != 0;
    auto& L      = GMGPolarVerifAccess::levels(*s);
    const int nl = GMGPolarVerifAccess::numberOfLevels(*s);
    const PolarGrid& g = L[0].grid();
    const int n        = g.numberOfNodes();
    static const char* cn[3] = {"V", "W", "F"};
    o.signature  = std::string(cn[cycle]) + (extrap ? "ex" : "pl") + (fgs ? "F" : "E") + "L" + std::to_string(nl) + "n" + std::to_string(nu1) +
                  std::to_string(nu2) + "s" + std::to_string(cfg.strategy) + "b" + std::to_string(cfg.dirbc) + "g" + std::to_string(g.nr()) + "x" +
                  std::to_string(g.ntheta()) + "m" + std::to_string(mode);
    o.nontrivial = nl >= 3 || nu1 + nu2 >= 1;
    o.cls(std::string("cycle_") + cn[cycle] + (extrap ? "_extrapolated" : "_plain"));
    o.cls("levels_" + std::to_string(std::min(nl, 6)));
    if (nu1 + nu2 == 0)
        o.cls("no_smoothing");
    o.cls(mode == 0 ? "differential" : "fixed_point");
    if (nl >= 2 && L[1].grid().numberOfNodes() > 10000)
        o.cls(cfg.threads >= 2 ? "level1_above_parallel_threshold_multithreaded" : "level1_above_parallel_threshold");
    if (nl >= 3 && L[2].grid().numberOfNodes() > 10000)
        o.cls("level2_above_parallel_threshold");

    if (fmgFirst) {
        // The cycles of a solve read the right-hand sides of level 0 and (extrapolated system) level 1 after the start-up has
        // run: the start-up is a function of them and must leave them as they were (deeper levels hold restricted
        // residuals, which every cycle overwrites).
        o.cls("fmg_startup_before_cycles");
        const Vector<double> f0 = L[0].rhs(), f1 = L[1].rhs();
        GMGPolarVerifAccess::initializeSolution(*s);
        for (int lev = 0; lev < 2; lev++) {
            const Vector<double>& before = lev == 0 ? f0 : f1;
            const Vector<double>& after  = L[lev].rhs();
            for (int i = 0; i < (int)before.size(); i++)
                if (std::memcmp(&before[i], &after[i], 8) != 0) {
                    char buf[200];
                    snprintf(buf, sizeof buf, "the full-multigrid start-up changed the right-hand side of level %d (%d levels): entry %d %.17g -> %.17g",
                             lev, nl, i, before[i], after[i]);
                    o.fail("rhs_changed_by_fmg_startup", buf);
                    return o;
                }
        }
    }
    Vector<double> u = makeVector(g, (int)c.getI("u_kind"), c.getU("u_seed"));
    Vector<double> zero(n);
    for (int i = 0; i < n; i++)
        zero[i] = 0.0;
    if (mode == 1) {
        // make u the exact solution: f_h := A_h u and (extrapolated system) f_c := A_c Inj u
        Vector<double> t(n);
        L[0].computeResidual(t, zero, u);
        for (int i = 0; i < n; i++)
            L[0].rhs()[i] = -t[i];
        const int nc = L[1].grid().numberOfNodes();
        Vector<double> uc(nc), tc(nc), zc(nc);
        RefCycle rc0(*s);
        for (int i = 0; i < nc; i++)
            zc[i] = 0.0;
        rc0.inject(0, uc, u); // own injection (coarse node (i,j) = fine node (2i,2j))
        L[1].computeResidual(tc, zc, uc);
        for (int i = 0; i < nc; i++)
            L[1].rhs()[i] = -tc[i];
    }
    const Vector<double> rhs0 = L[0].rhs();
    const Vector<double> rhs1 = L[1].rhs();

    // the private cycle, exactly as solve() calls it, with polluted scratch vectors
    auto runPrivate = [&](uint64_t pseed) {
        L[0].solution() = u;
        L[0].rhs()      = rhs0;
        L[1].rhs()      = rhs1;
        pollute(*s, pseed, true);
        GMGPolarVerifAccess::cycle(*s, cycle, extrap != 0, 0, L[0].solution(), L[0].rhs(), L[0].residual());
        return Vector<double>(L[0].solution());
    };
    Vector<double> out1 = runPrivate(c.getU("pollute_seed"));
    Vector<double> out2 = runPrivate(c.getU("pollute_seed") * 31 + 7);
    double scale = 0;
    for (int i = 0; i < n; i++) {
        if (!std::isfinite(out1[i])) {
            o.fail("finite", "cycle output is not finite");
            return o;
        }
        scale = std::max(scale, std::max(std::fabs(out1[i]), std::fabs(u[i])));
    }
    // (iii) independent of what the scratch vectors held
    if (std::memcmp(out1.begin(), out2.begin(), sizeof(double) * n) != 0) {
        double d = 0;
        for (int i = 0; i < n; i++)
            d = std::max(d, std::fabs(out1[i] - out2[i]));
        char buf[200];
        snprintf(buf, sizeof buf, "the result of one %s-cycle depends on the old contents of the work vectors (max diff %.3e)", cn[cycle], d);
        o.fail("scratch_dependence", buf);
        return o;
    }
    // rhs must not be modified by a cycle
    if (std::memcmp(L[0].rhs().begin(), rhs0.begin(), sizeof(double) * n) != 0) {
        o.fail("rhs_modified", "the cycle modified the level-0 right-hand side");
        return o;
    }
    // (iv) a cycle is a linear correction scheme: with iterate and right-hand sides scaled by one power of two the result is
    // the scaled result, bit for bit (the scaling is exact; an absolute threshold anywhere in the cycle breaks this)
    if (const int sc = (int)c.getI("homogeneity_exp", 0); sc != 0) {
        o.cls(sc < 0 ? "homogeneity_tiny" : "homogeneity_huge");
        Vector<double> us = u, r0s = rhs0, r1s = rhs1;
        for (int i = 0; i < us.size(); i++)
            us[i] = std::ldexp(us[i], sc);
        for (int i = 0; i < r0s.size(); i++)
            r0s[i] = std::ldexp(r0s[i], sc);
        for (int i = 0; i < r1s.size(); i++)
            r1s[i] = std::ldexp(r1s[i], sc);
        L[0].solution() = us;
        L[0].rhs()      = r0s;
        L[1].rhs()      = r1s;
        pollute(*s, c.getU("pollute_seed") + 3, true);
        GMGPolarVerifAccess::cycle(*s, cycle, extrap != 0, 0, L[0].solution(), L[0].rhs(), L[0].residual());
        double dmax = 0;
        for (int i = 0; i < n; i++)
            dmax = std::max(dmax, std::fabs(std::ldexp(L[0].solution()[i], -sc) - out1[i]));
        L[0].rhs() = rhs0;
        L[1].rhs() = rhs1;
        if (dmax > 1e-12 * scale) {
            char buf[300];
            snprintf(buf, sizeof buf, "%s%s-cycle (%d levels, nu=%d,%d): with all data scaled by 2^%d the result is not the scaled result (max diff %.3e after rescaling, |u|=%.3e)",
                     extrap ? "extrapolated " : "", cn[cycle], nl, nu1, nu2, sc, dmax, scale);
            o.fail("homogeneity", buf);
            return o;
        }
    }
    if (mode == 0) {
        // (i) differential against the reference cycle (own vectors at every depth)
        RefCycle rc(*s);
        Vector<double> x = u;
        if (extrap)
            rc.exCycle(cycle, x, rhs0, rhs1);
        else
            rc.cycle(cycle, 0, x, rhs0);
        double d = 0;
        for (int i = 0; i < n; i++)
            d = std::max(d, std::fabs(x[i] - out1[i]));
        o.mx("reference_cycle_rel_diff", scale > 0 ? d / scale : d);
        if (d == 0)
            o.cls("bitwise_equal_to_reference");
        if (d > 1e-12 * scale) {
            char buf[300];
            snprintf(buf, sizeof buf, "%s%s-cycle (%d levels, nu=%d,%d) differs from the reference correction scheme by %.3e (|u|=%.3e)",
                     extrap ? "extrapolated " : "", cn[cycle], nl, nu1, nu2, d, scale);
            o.fail("reference_cycle", buf);
            return o;
        }
    }
    else {
        // (ii) the exact solution of the (extrapolated) system is a fixed point, up to a condition-aware bound.
        // A cycle WITHOUT any smoothing on three or more levels is not a contraction (the coarse-grid correction alone
        // does not damp the oscillatory components; the recursive W/F visits apply it 2^(L-2) times), so in floating
        // point the rounding-level residual of the "exact" solution is amplified without bound (seed sweep: moved by
        // O(|u|) on 7 levels, W-cycle). The statement is about exact arithmetic; such cycles are compared with the
        // reference scheme in mode 0 (bitwise), which loses nothing, and are not judged here (DESIGN.md 10.1).
        if (nu1 + nu2 == 0 && nl >= 3) {
            o.inconclusive = true;
            o.cls("fixed_point_not_judged_no_smoothing_multilevel");
            return o;
        }
        double kinv = 0, knorm = 0;
        const int ncl = L[nl - 1].grid().numberOfNodes();
        for (int k = 0; k < 3; k++) {
            Vector<double> v = makeVector(L[nl - 1].grid(), 0, 100 + k), w(ncl), z(ncl);
            for (int i = 0; i < ncl; i++)
                z[i] = 0.0;
            double vn = 0;
            for (int i = 0; i < ncl; i++)
                vn = std::max(vn, std::fabs(v[i]));
            L[nl - 1].computeResidual(w, z, v);
            double wn = 0;
            for (int i = 0; i < ncl; i++)
                wn = std::max(wn, std::fabs(w[i]));
            knorm = std::max(knorm, wn / vn);
            Vector<double> y = v;
            L[nl - 1].directSolveInPlace(y);
            double yn = 0;
            for (int i = 0; i < ncl; i++)
                yn = std::max(yn, std::fabs(y[i]));
            kinv = std::max(kinv, yn / vn);
        }
        // The rounding residual eps*|A||u| of the exact solution is amplified by the cycle like by A_h^{-1} of the FINEST
        // level; the direct solver exists on the coarsest level only, and with the finite-volume scaling of this code
        // ||A_l|| is level independent while ||A_l^{-1}|| grows like h^-2, i.e. by a factor 4 per level.
        // (False alarm of seed sweep 5: the bound used the coarsest level's condition number, 15 on a 5x8 grid, for a
        // 33x64 finest grid; see DESIGN.md 10.1.)
        const double kappa = std::max(1.0, kinv * knorm) * std::pow(4.0, nl - 1);
        const double tol   = 1e3 * EPS * kappa * scale;
        double d = 0;
        for (int i = 0; i < n; i++)
            d = std::max(d, std::fabs(out1[i] - u[i]));
        o.mx("log10_kappa_est", std::log10(kappa));
        if (tol > 1e-4 * scale) {
            o.inconclusive = true;
            o.cls("fixed_point_inconclusive_illconditioned");
            return o;
        }
        o.mx("fixed_point_move_over_tol", d / tol);
        if (d > tol) {
            char buf[300];
            snprintf(buf, sizeof buf, "%s%s-cycle (%d levels, nu=%d,%d) moves the exact solution of the %s system by %.3e (tol %.3e, |u|=%.3e)",
                     extrap ? "extrapolated " : "", cn[cycle], nl, nu1, nu2, extrap ? "extrapolated" : "discrete", d, tol, scale);
            o.fail("fixed_point", buf);
            return o;
        }
    }
    return o;
}

static KV genCase()
{
    KV c;
    SolverCfg s;
    s.geometry = rint(0, 2);
    s.problem  = rint(0, 2);
    s.alpha    = rint(0, 3);
    s.beta     = rint(0, 1);
    genGeometryParams(s);
    s.R0         = s.Rmax * rpick({1e-5, 1e-3, 1e-2, 0.1});
    s.nr_exp     = rint(3, 5);
    s.ntheta_exp = rpick({-1, -1, 4, 5, 6});
    s.aniso      = 0;
    s.div        = rint(0, 1);
    s.dirbc      = rbool();
    s.max_levels = rpick({-1, 2, 2, 3, 4, 5});
    s.threads    = rpick({1, 1, 2, 4});
    s.strategy   = rint(0, 1);
    if (s.strategy == 1) {
        s.cache_coef = rbool();
        s.cache_geom = rbool();
    }
    // The cycle code switches to parallel kernels on levels with more than 10 000 nodes (`omp parallel if (n > 10'000)`
    // in the transfers and vector updates): a small share of the cases has level 1 (and, in the thorough tier, level 2)
    // above that threshold and runs with several threads, with enough levels that the coarsest solve stays small.
    const bool thorough = std::getenv("VERIF_TIER") && std::string(std::getenv("VERIF_TIER")) == "thorough";
    if (rweighted({thorough ? 30 : 40, 1}) == 1) {
        s.nr_exp     = (thorough && rint(0, 3) == 0) ? 9 : 8;
        s.div        = 0;
        s.ntheta_exp = -1;
        s.max_levels = rpick({-1, 5, 6});
        s.threads    = rpick({2, 3, 4});
        s.R0         = s.Rmax * rpick({1e-3, 1e-2, 0.1}); // keeps the fixed-point bound meaningful on 257 radial nodes
    }
    s.via_cli = rint(0, 1);
    if (s.nr_exp <= 5 && rint(0, 5) == 0) {
        s.grid_kind = rint(1, 5); // a grid loaded from files
        s.div       = 0;
        if (s.max_levels > 3)
            s.max_levels = -1;
    }
    s.fmg_its   = rint(0, 2);
    s.fmg_cycle = rint(0, 2);
    s.put(c);
    c.putI("cycle", rint(0, 2));
    c.putI("verbose", rweighted({3, 1, 2}));
    c.putI("homogeneity_exp", rpick({0, 0, 0, -60, -200, 200}));
    c.putI("extrap", rint(0, 1));
    c.putI("fgs", rint(0, 1));
    c.putI("nu1", rint(0, 3));
    c.putI("nu2", rint(0, 3));
    c.putI("mode", rint(0, 1));
    c.putI("fmg_first", rweighted({3, 1}));
    c.putI("u_kind", rweighted({4, 4, 0, 1, 0, 1}));
    c.putU("u_seed", rseed());
    c.putU("pollute_seed", rseed());
    return c;
}

int main(int argc, char** argv)
{
    return harnessMain(argc, argv, "C10 cycle consistency", genCase, runCase);
}
