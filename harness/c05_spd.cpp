// FLAVOURS: rel asan
// C05: restricted to the non-Dirichlet unknowns the discrete operator is symmetric positive definite.
//   ProblemSpec + threads, x_kind/x_seed, y_kind/y_seed, probe
#include "engine.h"
#include "problem.h"
#include "refop.h"
#include "DirectSolver/DirectSolverGiveCustomLU/directSolverGiveCustomLU.h"

static const double EPS  = 2.220446049250313e-16;
static const double CTOL = 32.0;

// adversarial vectors in addition to makeVector: 10 constant, 11 checkerboard, 12 spike on the origin circle,
// 13 approximate lowest eigenvector (inverse iteration through the direct solver)
static Vector<double> advVector(const PolarGrid& g, int kind, uint64_t seed, const std::function<void(Vector<double>&)>& invApply)
{
    if (kind < 10)
        return makeVector(g, kind, seed);
    const int n = g.numberOfNodes();
    Vector<double> v(n);
    for (int i = 0; i < g.nr(); i++)
        for (int j = 0; j < g.ntheta(); j++) {
            double val = 1.0;
            if (kind == 11)
                val = ((i + j) & 1) ? 1.0 : -1.0;
            if (kind == 12)
                val = (i == 0) ? ((j & 1) ? 1.0 : -1.0) : 0.0;
            v[g.index(i, j)] = val;
        }
    if (kind == 13) {
        v = makeVector(g, 0, seed);
        for (int it = 0; it < 3; it++) {
            // zero Dirichlet entries, apply A^-1, normalise
            invApply(v);
            double m = 0;
            for (int i = 0; i < n; i++)
                m = std::max(m, std::fabs(v[i]));
            if (m > 0)
                for (int i = 0; i < n; i++)
                    v[i] /= m;
        }
    }
    return v;
}

static Outcome runCase(const KV& c)
{
    Outcome o;
    ProblemSpec p     = ProblemSpec::get(c);
    const int threads = (int)c.getI("threads");
    const bool probe  = c.getI("probe", 0) != 0;
    Hierarchy H;
    H.build(p, true, true, 0);
    Hierarchy Hu; // uncached variant (give only)
    Hu.build(p, false, false, 0);
    const PolarGrid& g = H.levels[0]->grid();
    const int n = g.numberOfNodes(), nr = g.nr(), nt = g.ntheta();
    RefOp ref(g, *H.geometry, *H.coefficients, p.dirbc);
    // the mapping must be a diffeomorphism on the grid (alpha>0 is given by the profiles)
    for (auto d : ref.det)
        if (!(fabsl(d) > 0)) {
            o.cls("discarded_degenerate_mapping");
            return o;
        }
    o.nontrivial = p.geom != 0 || !p.uniformGrid();
    o.signature  = p.sig() + "c" + std::to_string(g.numberSmootherCircles()) + "t" + std::to_string(threads) + "x" +
                  c.getS("x_kind") + "y" + c.getS("y_kind") + (probe ? "P" : "");
    o.cls(std::string("geom_") + kGeomNames[p.geom]);
    o.cls(p.dirbc ? "dirbc" : "across_origin");
    if (!p.uniformGrid())
        o.cls("nonuniform_grid");
    if (probe)
        o.cls("probed");

    auto zeroDirichlet = [&](Vector<double>& v) {
        for (int j = 0; j < nt; j++) {
            v[g.index(nr - 1, j)] = 0.0;
            if (p.dirbc)
                v[g.index(0, j)] = 0.0;
        }
    };
    std::unique_ptr<DirectSolverGiveCustomLU> ds;
    auto invApply = [&](Vector<double>& v) {
        if (!ds)
            ds = std::make_unique<DirectSolverGiveCustomLU>(g, H.levels[0]->levelCache(), *H.geometry, *H.coefficients, p.dirbc, 1);
        zeroDirichlet(v);
        ds->solveInPlace(v);
    };
    const int xk = (int)c.getI("x_kind"), yk = (int)c.getI("y_kind");
    if ((xk == 13 || yk == 13) && n > 3000) {
        o.cls("discarded_too_large_for_inverse_iteration");
        return o;
    }
    Vector<double> x = advVector(g, xk, c.getU("x_seed"), invApply);
    Vector<double> y = advVector(g, yk, c.getU("y_seed"), invApply);
    zeroDirichlet(x);
    zeroDirichlet(y);
    double xn = 0;
    for (int i = 0; i < n; i++)
        xn = std::max(xn, std::fabs(x[i]));
    std::vector<LD> Ax_ref, magx, Ay_ref, magy;
    ref.applyMag(x, Ax_ref, magx);
    ref.applyMag(y, Ay_ref, magy);

    Vector<double> zero(n);
    for (int i = 0; i < n; i++)
        zero[i] = 0.0;
    const char* names[3] = {"give(cached)", "give(uncached)", "take"};
    for (int impl = 0; impl < 3; impl++) {
        Vector<double> rx(n), ry(n);
        // F15 (see C03): parallel give with an empty circle section and across-origin closure is excluded
        int thr = threads;
        if (impl < 2 && threads > 1 && !p.dirbc && g.numberSmootherCircles() == 0) {
            thr = 1;
            o.cnt("excluded_known_F15");
        }
        if (impl == 0) {
            ResidualGive op(g, H.levels[0]->levelCache(), *H.geometry, *H.coefficients, p.dirbc, thr);
            op.computeResidual(rx, zero, x);
            op.computeResidual(ry, zero, y);
        }
        else if (impl == 1) {
            ResidualGive op(Hu.levels[0]->grid(), Hu.levels[0]->levelCache(), *Hu.geometry, *Hu.coefficients, p.dirbc, thr);
            op.computeResidual(rx, zero, x);
            op.computeResidual(ry, zero, y);
        }
        else {
            ResidualTake op(g, H.levels[0]->levelCache(), *H.geometry, *H.coefficients, p.dirbc, threads);
            op.computeResidual(rx, zero, x);
            op.computeResidual(ry, zero, y);
        }
        LD axy = 0, xay = 0, axx = 0, bound = 0, boundxx = 0;
        for (int i = 0; i < nr; i++) {
            if (ref.isDirichlet(i))
                continue;
            for (int j = 0; j < nt; j++) {
                const int k = g.index(i, j);
                const LD Ax = -(LD)rx[k], Ay = -(LD)ry[k];
                axy += Ax * (LD)y[k];
                xay += (LD)x[k] * Ay;
                axx += Ax * (LD)x[k];
                bound += CTOL * EPS * (magx[k] * fabsl((LD)y[k]) + magy[k] * fabsl((LD)x[k]));
                boundxx += CTOL * EPS * magx[k] * fabsl((LD)x[k]);
            }
        }
        if (bound > 0)
            o.mx("symmetry_defect_over_bound", (double)(fabsl(axy - xay) / bound));
        if (fabsl(axy - xay) > bound) {
            char buf[256];
            snprintf(buf, sizeof buf, "%s: <Ax,y>=%.17Lg but <x,Ay>=%.17Lg (difference %.3Le, rounding bound %.3Le)", names[impl],
                     axy, xay, fabsl(axy - xay), bound);
            o.fail("symmetry", buf);
            return o;
        }
        if (xn > 0 && axx > -boundxx && !(axx > boundxx))
            o.cls("positivity_within_rounding_inconclusive");
        if (xn > 0 && !(axx > -boundxx)) {
            char buf[256];
            snprintf(buf, sizeof buf, "%s: <Ax,x>=%.6Le is not positive beyond rounding (%.3Le) for a non-zero x", names[impl], axx,
                     boundxx);
            o.fail("positivity", buf);
            return o;
        }
    }
    // decisive on small grids: full matrix, entrywise symmetry and Cholesky of the interior block
    if (probe && n <= 900) {
        for (int impl = 0; impl < 2; impl++) {
            DMat M;
            if (impl == 0) {
                ResidualGive op(g, H.levels[0]->levelCache(), *H.geometry, *H.coefficients, p.dirbc, 1);
                M = probeMatrix(op, g);
            }
            else {
                ResidualTake op(g, H.levels[0]->levelCache(), *H.geometry, *H.coefficients, p.dirbc, 1);
                M = probeMatrix(op, g);
            }
            std::vector<int> inner;
            for (int i = 0; i < nr; i++)
                if (!ref.isDirichlet(i))
                    for (int j = 0; j < nt; j++)
                        inner.push_back(g.index(i, j));
            const int m = (int)inner.size();
            DMat B(m);
            for (int a = 0; a < m; a++)
                for (int b = 0; b < m; b++)
                    B(a, b) = M(inner[a], inner[b]);
            for (int a = 0; a < m; a++)
                for (int b = a + 1; b < m; b++) {
                    const LD tol = CTOL * EPS * std::max(fabsl(B(a, a)), fabsl(B(b, b)));
                    const LD d   = fabsl(B(a, b) - B(b, a));
                    if (tol > 0)
                        o.mx("entry_asymmetry_over_tol", (double)(d / tol));
                    if (d > tol) {
                        int ia, ja, ib, jb;
                        g.multiIndex(inner[a], ia, ja);
                        g.multiIndex(inner[b], ib, jb);
                        char buf[256];
                        snprintf(buf, sizeof buf, "%s: a[(%d,%d),(%d,%d)]=%.17Lg but transposed entry %.17Lg", impl ? "take" : "give", ia,
                                 ja, ib, jb, B(a, b), B(b, a));
                        o.fail("entry_symmetry", buf);
                        return o;
                    }
                }
            // symmetrise exactly before the definiteness test (asymmetry is within rounding here)
            for (int a = 0; a < m; a++)
                for (int b = a + 1; b < m; b++)
                    B(a, b) = B(b, a) = 0.5L * (B(a, b) + B(b, a));
            const LD minp = choleskyMinPivot(B);
            if (!(minp > 0)) {
                char buf[200];
                snprintf(buf, sizeof buf, "%s: interior block is not positive definite (Cholesky pivot %.3Le)", impl ? "take" : "give", minp);
                o.fail("cholesky", buf);
                return o;
            }
            // every circle line and radial line block inherits symmetry/definiteness (principal sub-blocks)
        }
    }
    return o;
}

static KV genCase()
{
    KV c;
    GridOpts go;
    go.nr_min = 4;
    go.nr_max = 36;
    go.nt_min = 4;
    go.nt_max = 48;
    go.allow_large = true;
    ProblemSpec p  = genProblem(go);
    p.put(c);
    c.putI("threads", rpick({1, 1, 2, 3, 5, 16}));
    auto kind = [&] { return rweighted({4, 3, 1, 1, 1, 0, 0, 0, 0, 0, 1, 1, 1, 2}); };
    c.putI("x_kind", kind());
    c.putU("x_seed", rseed());
    c.putI("y_kind", kind());
    c.putU("y_seed", rseed());
    c.putI("probe", (p.nr() * p.ntheta() <= 400 && rint(0, 3) == 0) ? 1 : 0);
    return c;
}

int main(int argc, char** argv)
{
    return harnessMain(argc, argv, "C05 symmetric positive definite", genCase, runCase);
}
