// FLAVOURS: rel asan
// C05: restricted to the non-Dirichlet unknowns the discrete operator is symmetric positive definite.
//   ProblemSpec + threads, x_kind/x_seed, y_kind/y_seed, probe
#include "engine.h"
#include "problem.h"
#include "refop.h"
#include "DirectSolver/DirectSolverGiveCustomLU/directSolverGiveCustomLU.h"
#include "Smoother/SmootherGive/smootherGive.h"
#include "Smoother/SmootherTake/smootherTake.h"
#include "ExtrapolatedSmoother/ExtrapolatedSmootherGive/extrapolatedSmootherGive.h"
#include "ExtrapolatedSmoother/ExtrapolatedSmootherTake/extrapolatedSmootherTake.h"

static const double EPS  = 2.220446049250313e-16;
static const double CTOL = 32.0;

// adversarial vectors in addition to makeVector: 10 constant, 11 checkerboard, 12 spike on the origin circle,
// 13 approximate lowest eigenvector (inverse iteration through the direct solver)
static Vector<double> advVector(const PolarGrid& g, int kind, uint64_t seed, const std::function<void(Vector<double>&)>& invApply)
{
    if (kind < 10)
        return makeVector(g, kind, seed);
    const int n = g.numberOfNodes();
    Vector<double> v(n);
    for (int i = 0; i < g.nr(); i++)
        for (int j = 0; j < g.ntheta(); j++) {
            double val = 1.0;
            if (kind == 11)
                val = ((i + j) & 1) ? 1.0 : -1.0;
            if (kind == 12)
                val = (i == 0) ? ((j & 1) ? 1.0 : -1.0) : 0.0;
            v[g.index(i, j)] = val;
        }
    if (kind == 13) {
        v = makeVector(g, 0, seed);
        for (int it = 0; it < 3; it++) {
            // zero Dirichlet entries, apply A^-1, normalise
            invApply(v);
            double m = 0;
            for (int i = 0; i < n; i++)
                m = std::max(m, std::fabs(v[i]));
            if (m > 0)
                for (int i = 0; i < n; i++)
                    v[i] /= m;
        }
    }
    return v;
}

// "The line blocks the smoothers factorise inherit both properties", decided on the objects that are actually
// factorised, without a hook: with x = 0 and f = e_k one sweep returns, on the line of node k, column k of the inverse
// of that line's block (every node is updated exactly once per sweep, lines updated earlier see a zero right-hand
// side; Dirichlet nodes keep f = 0). The probed inverse must be symmetric, positive definite, and the inverse of the operator's principal
// sub-block (M = probed matrix of the residual operator of the same strategy).
template <class Sweep>
static bool probeLineBlocks(Outcome& o, const PolarGrid& g, const DMat& M, bool extrapolated, bool dirbc, const char* name, Sweep sweep)
{
    const int n = g.numberOfNodes(), nr = g.nr(), nt = g.ntheta(), nC = g.numberSmootherCircles();
    // the property speaks about the non-Dirichlet unknowns: boundary nodes carry identity rows and are left out
    auto isFree = [&](int i, int j) { return (!extrapolated || (i & 1) || (j & 1)) && i != nr - 1 && !(dirbc && i == 0); };
    std::vector<std::vector<int>> lines;
    for (int i = 0; i < nC; i++) {
        std::vector<int> L;
        for (int j = 0; j < nt; j++)
            if (isFree(i, j))
                L.push_back(g.index(i, j));
        lines.push_back(L);
    }
    for (int j = 0; j < nt; j++) {
        std::vector<int> L;
        for (int i = nC; i < nr; i++)
            if (isFree(i, j))
                L.push_back(g.index(i, j));
        lines.push_back(L);
    }
    Vector<double> x(n), f(n), tmp(n);
    for (size_t li = 0; li < lines.size(); li++) {
        const std::vector<int>& L = lines[li];
        const int m = (int)L.size();
        if (m == 0)
            continue;
        DMat Binv(m), Bref(m);
        for (int a = 0; a < m; a++) {
            for (int k = 0; k < n; k++) {
                x[k]   = 0.0;
                f[k]   = 0.0;
                tmp[k] = 0.0;
            }
            f[L[a]] = 1.0;
            sweep(x, f, tmp);
            for (int b = 0; b < m; b++) {
                Binv(b, a) = x[L[b]];
                Bref(a, b) = M(L[a], L[b]);
            }
        }
        const LD kappa = std::max<LD>(1, Binv.normInf() * Bref.normInf());
        o.mx("log10_line_kappa", (double)log10l(kappa));
        o.cnt("line_blocks_probed");
        const bool circle = (int)li < nC;
        char where[96];
        snprintf(where, sizeof where, "%s %s line %d (%d unknowns)", name, circle ? "circle" : "radial", circle ? (int)li : (int)li - nC, m);
        if (kappa > 1e10L) {
            o.cnt("line_blocks_illconditioned_skipped");
            continue;
        }
        // (a) inverse of the operator's principal sub-block
        LD worst = 0;
        for (int a = 0; a < m; a++)
            for (int b = 0; b < m; b++) {
                LD sacc = 0;
                for (int k = 0; k < m; k++)
                    sacc += Bref(a, k) * Binv(k, b);
                worst = std::max(worst, fabsl(sacc - (a == b ? 1.0L : 0.0L)));
            }
        const LD tolI = CTOL * m * EPS * kappa;
        o.mx("line_block_inverse_defect_over_tol", (double)(worst / tolI));
        if (worst > tolI) {
            char buf[256];
            snprintf(buf, sizeof buf, "%s: the factorised block is not the operator's principal sub-block (|A_LL B^-1 - I| = %.3Le, tol %.3Le)", where,
                     worst, tolI);
            o.fail("line_block_operator", buf);
            return false;
        }
        // (b) symmetric
        for (int a = 0; a < m; a++)
            for (int b = a + 1; b < m; b++) {
                const LD tol = CTOL * EPS * kappa * std::max(fabsl(Binv(a, a)), fabsl(Binv(b, b)));
                const LD d   = fabsl(Binv(a, b) - Binv(b, a));
                if (tol > 0)
                    o.mx("line_block_asymmetry_over_tol", (double)(d / tol));
                if (d > tol) {
                    char buf[256];
                    snprintf(buf, sizeof buf, "%s: inverse of the factorised block is not symmetric: (%d,%d)=%.17Lg, (%d,%d)=%.17Lg", where, a, b,
                             Binv(a, b), b, a, Binv(b, a));
                    o.fail("line_block_symmetry", buf);
                    return false;
                }
            }
        // (c) positive definite (the inverse of an SPD matrix is SPD)
        for (int a = 0; a < m; a++)
            for (int b = a + 1; b < m; b++)
                Binv(a, b) = Binv(b, a) = 0.5L * (Binv(a, b) + Binv(b, a));
        const LD minp = choleskyMinPivot(Binv);
        if (!(minp > 0)) {
            char buf[200];
            snprintf(buf, sizeof buf, "%s: the factorised block is not positive definite (Cholesky pivot of its inverse %.3Le)", where, minp);
            o.fail("line_block_definite", buf);
            return false;
        }
    }
    return true;
}

static Outcome runCase(const KV& c)
{
    Outcome o;
    setVectorScaleExp(c, o);
    ProblemSpec p     = ProblemSpec::get(c);
    const int threads = (int)c.getI("threads");
    const bool probe  = c.getI("probe", 0) != 0;
    Hierarchy H;
    H.build(p, true, true, 0);
    Hierarchy Hu; // uncached variant (give only)
    Hu.build(p, false, false, 0);
    const PolarGrid& g = H.levels[0]->grid();
    const int n = g.numberOfNodes(), nr = g.nr(), nt = g.ntheta();
    RefOp ref(g, *H.geometry, *H.coefficients, p.dirbc);
    // the mapping must be a diffeomorphism on the grid (alpha>0 is given by the profiles)
    for (auto d : ref.det)
        if (!(fabsl(d) > 0)) {
            o.cls("discarded_degenerate_mapping");
            return o;
        }
    o.nontrivial = p.geom != 0 || !p.uniformGrid();
    o.signature  = p.sig() + "c" + std::to_string(g.numberSmootherCircles()) + "t" + std::to_string(threads) + "x" +
                  c.getS("x_kind") + "y" + c.getS("y_kind") + (probe ? "P" : "");
    o.cls(std::string("geom_") + kGeomNames[p.geom]);
    o.cls(p.dirbc ? "dirbc" : "across_origin");
    if (!p.uniformGrid())
        o.cls("nonuniform_grid");
    if (probe)
        o.cls("probed");

    auto zeroDirichlet = [&](Vector<double>& v) {
        for (int j = 0; j < nt; j++) {
            v[g.index(nr - 1, j)] = 0.0;
            if (p.dirbc)
                v[g.index(0, j)] = 0.0;
        }
    };
    std::unique_ptr<DirectSolverGiveCustomLU> ds;
    auto invApply = [&](Vector<double>& v) {
        if (!ds)
            ds = std::make_unique<DirectSolverGiveCustomLU>(g, H.levels[0]->levelCache(), *H.geometry, *H.coefficients, p.dirbc, 1);
        zeroDirichlet(v);
        ds->solveInPlace(v);
    };
    const int xk = (int)c.getI("x_kind"), yk = (int)c.getI("y_kind");
    if ((xk == 13 || yk == 13) && n > 3000) {
        o.cls("discarded_too_large_for_inverse_iteration");
        return o;
    }
    Vector<double> x = advVector(g, xk, c.getU("x_seed"), invApply);
    // y in its own units: <Ax,y> = <x,Ay> is bilinear, nothing ties the two magnitudes together
    const int xexp = vectorScaleExp();
    if (c.has("y_scale_exp")) {
        vectorScaleExp() = (int)c.getI("y_scale_exp");
        if (vectorScaleExp() != xexp)
            o.cls("y_scaled_differently_from_x");
    }
    Vector<double> y = advVector(g, yk, c.getU("y_seed"), invApply);
    vectorScaleExp() = xexp;
    zeroDirichlet(x);
    zeroDirichlet(y);
    double xn = 0;
    for (int i = 0; i < n; i++)
        xn = std::max(xn, std::fabs(x[i]));
    std::vector<LD> Ax_ref, magx, Ay_ref, magy;
    ref.applyMag(x, Ax_ref, magx);
    ref.applyMag(y, Ay_ref, magy);

    Vector<double> zero(n);
    for (int i = 0; i < n; i++)
        zero[i] = 0.0;
    const char* names[5] = {"give(cached)", "give(uncached)", "take", "take via Level", "give via Level"};
    // with via_level also through Level::computeResidual, the route the cycles and the stop test use, on a Level object first
    // initialised for the other boundary mode
    const int nimpl = c.getI("via_level", 0) ? 5 : 3;
    for (int impl = 0; impl < nimpl; impl++) {
        Vector<double> rx(n), ry(n);
        // F15 (see C03): parallel give with an empty circle section and across-origin closure is excluded
        int thr = threads;
        if ((impl < 2 || impl == 4) && threads > 1 && !p.dirbc && g.numberSmootherCircles() == 0) {
            thr = 1;
            o.cnt("excluded_known_F15");
        }
        if (impl == 0) {
            ResidualGive op(g, H.levels[0]->levelCache(), *H.geometry, *H.coefficients, p.dirbc, thr);
            op.computeResidual(rx, zero, x);
            op.computeResidual(ry, zero, y);
        }
        else if (impl == 1) {
            ResidualGive op(Hu.levels[0]->grid(), Hu.levels[0]->levelCache(), *Hu.geometry, *Hu.coefficients, p.dirbc, thr);
            op.computeResidual(rx, zero, x);
            op.computeResidual(ry, zero, y);
        }
        else if (impl == 2) {
            ResidualTake op(g, H.levels[0]->levelCache(), *H.geometry, *H.coefficients, p.dirbc, threads);
            op.computeResidual(rx, zero, x);
            op.computeResidual(ry, zero, y);
        }
        else {
            Level& L          = *H.levels[0];
            const auto method = impl == 3 ? StencilDistributionMethod::CPU_TAKE : StencilDistributionMethod::CPU_GIVE;
            L.initializeResidual(*H.geometry, *H.coefficients, !p.dirbc, 1, method);
            L.initializeResidual(*H.geometry, *H.coefficients, p.dirbc, impl == 3 ? threads : thr, method);
            L.computeResidual(rx, zero, x);
            L.computeResidual(ry, zero, y);
            o.cls("via_level_reinitialised");
        }
        LD axy = 0, xay = 0, axx = 0, bound = 0, boundxx = 0;
        for (int i = 0; i < nr; i++) {
            if (ref.isDirichlet(i))
                continue;
            for (int j = 0; j < nt; j++) {
                const int k = g.index(i, j);
                const LD Ax = -(LD)rx[k], Ay = -(LD)ry[k];
                axy += Ax * (LD)y[k];
                xay += (LD)x[k] * Ay;
                axx += Ax * (LD)x[k];
                bound += CTOL * EPS * (magx[k] * fabsl((LD)y[k]) + magy[k] * fabsl((LD)x[k]));
                boundxx += CTOL * EPS * magx[k] * fabsl((LD)x[k]);
            }
        }
        if (bound > 0)
            o.mx("symmetry_defect_over_bound", (double)(fabsl(axy - xay) / bound));
        if (fabsl(axy - xay) > bound) {
            char buf[256];
            snprintf(buf, sizeof buf, "%s: <Ax,y>=%.17Lg but <x,Ay>=%.17Lg (difference %.3Le, rounding bound %.3Le)", names[impl],
                     axy, xay, fabsl(axy - xay), bound);
            o.fail("symmetry", buf);
            return o;
        }
        if (xn > 0 && axx > -boundxx && !(axx > boundxx))
            o.cls("positivity_within_rounding_inconclusive");
        if (xn > 0 && !(axx > -boundxx)) {
            char buf[256];
            snprintf(buf, sizeof buf, "%s: <Ax,x>=%.6Le is not positive beyond rounding (%.3Le) for a non-zero x", names[impl], axx,
                     boundxx);
            o.fail("positivity", buf);
            return o;
        }
    }
    // decisive on small grids: full matrix, entrywise symmetry and Cholesky of the interior block
    DMat Mop[2];
    if (probe && n <= 900) {
        for (int impl = 0; impl < 2; impl++) {
            DMat& M = Mop[impl];
            if (impl == 0) {
                ResidualGive op(g, H.levels[0]->levelCache(), *H.geometry, *H.coefficients, p.dirbc, 1);
                M = probeMatrix(op, g);
            }
            else {
                ResidualTake op(g, H.levels[0]->levelCache(), *H.geometry, *H.coefficients, p.dirbc, 1);
                M = probeMatrix(op, g);
            }
            std::vector<int> inner;
            for (int i = 0; i < nr; i++)
                if (!ref.isDirichlet(i))
                    for (int j = 0; j < nt; j++)
                        inner.push_back(g.index(i, j));
            const int m = (int)inner.size();
            DMat B(m);
            for (int a = 0; a < m; a++)
                for (int b = 0; b < m; b++)
                    B(a, b) = M(inner[a], inner[b]);
            for (int a = 0; a < m; a++)
                for (int b = a + 1; b < m; b++) {
                    const LD tol = CTOL * EPS * std::max(fabsl(B(a, a)), fabsl(B(b, b)));
                    const LD d   = fabsl(B(a, b) - B(b, a));
                    if (tol > 0)
                        o.mx("entry_asymmetry_over_tol", (double)(d / tol));
                    if (d > tol) {
                        int ia, ja, ib, jb;
                        g.multiIndex(inner[a], ia, ja);
                        g.multiIndex(inner[b], ib, jb);
                        char buf[256];
                        snprintf(buf, sizeof buf, "%s: a[(%d,%d),(%d,%d)]=%.17Lg but transposed entry %.17Lg", impl ? "take" : "give", ia,
                                 ja, ib, jb, B(a, b), B(b, a));
                        o.fail("entry_symmetry", buf);
                        return o;
                    }
                }
            // symmetrise exactly before the definiteness test (asymmetry is within rounding here)
            for (int a = 0; a < m; a++)
                for (int b = a + 1; b < m; b++)
                    B(a, b) = B(b, a) = 0.5L * (B(a, b) + B(b, a));
            const LD minp = choleskyMinPivot(B);
            if (!(minp > 0)) {
                char buf[200];
                snprintf(buf, sizeof buf, "%s: interior block is not positive definite (Cholesky pivot %.3Le)", impl ? "take" : "give", minp);
                o.fail("cholesky", buf);
                return o;
            }
        }
    }
    // the blocks the four smoothers actually factorise
    const int nC = g.numberSmootherCircles();
    if (probe && n <= 900 && c.getI("probe_lines", 0) && nC >= 2 && nr - nC >= 3 && nt % 4 == 0) {
        o.cls("line_blocks");
        const LevelCache& lc = H.levels[0]->levelCache();
        {
            SmootherGive sm(g, lc, *H.geometry, *H.coefficients, p.dirbc, 1);
            if (!probeLineBlocks(o, g, Mop[0], false, p.dirbc, "SmootherGive", [&](Vector<double>& x, Vector<double>& f, Vector<double>& t) { sm.smoothing(x, f, t); }))
                return o;
        }
        {
            SmootherTake sm(g, lc, *H.geometry, *H.coefficients, p.dirbc, 1);
            omp_set_num_threads(1);
            if (!probeLineBlocks(o, g, Mop[1], false, p.dirbc, "SmootherTake", [&](Vector<double>& x, Vector<double>& f, Vector<double>& t) { sm.smoothing(x, f, t); }))
                return o;
        }
        if (nC >= 3 && nr % 2 == 1) {
            o.cls("line_blocks_extrapolated");
            {
                ExtrapolatedSmootherGive sm(g, lc, *H.geometry, *H.coefficients, p.dirbc, 1);
                if (!probeLineBlocks(o, g, Mop[0], true, p.dirbc, "ExtrapolatedSmootherGive",
                                     [&](Vector<double>& x, Vector<double>& f, Vector<double>& t) { sm.extrapolatedSmoothing(x, f, t); }))
                    return o;
            }
            {
                ExtrapolatedSmootherTake sm(g, lc, *H.geometry, *H.coefficients, p.dirbc, 1);
                omp_set_num_threads(1);
                if (!probeLineBlocks(o, g, Mop[1], true, p.dirbc, "ExtrapolatedSmootherTake",
                                     [&](Vector<double>& x, Vector<double>& f, Vector<double>& t) { sm.extrapolatedSmoothing(x, f, t); }))
                    return o;
            }
        }
    }
    return o;
}

static KV genCase()
{
    KV c;
    GridOpts go;
    go.nr_min = 4;
    go.nr_max = 36;
    go.nt_min = 4;
    go.nt_max = 48;
    go.allow_large = true;
    // one case in five: a small grid the smoothers accept (>= 2 circles, >= 3 radial nodes, ntheta % 4 == 0), with the
    // line blocks the smoothers factorise probed as well
    const bool lines = rint(0, 4) == 0;
    if (lines) {
        go.nr_min      = 5;
        go.nr_max      = 15;
        go.nt_max      = 24;
        go.nt_mult4    = true;
        go.allow_large = false;
        go.coarsenable = rbool();
        go.min_circles = go.coarsenable ? 3 : 2;
        go.min_radial  = 3;
    }
    ProblemSpec p  = genProblem(go);
    if (lines && p.nr() < go.min_circles + go.min_radial) {
        p.radii      = genRadii(go.min_circles + go.min_radial + (go.coarsenable ? 1 : 0), 0, p.radii.front(), p.radii.back());
        p.split_mode = 0;
    }
    p.put(c);
    c.putI("probe_lines", lines);
    c.putI("threads", rpick({1, 1, 2, 3, 5, 16}));
    auto kind = [&] { return rweighted({4, 3, 1, 1, 1, 0, 0, 0, 0, 0, 1, 1, 1, 2}); };
    c.putI("x_kind", kind());
    c.putU("x_seed", rseed());
    c.putI("vec_scale_exp", rpick({0, 0, 0, 0, 0, 0, -300, -100, 100, 300}));
    if (rint(0, 3) == 0)
        c.putI("y_scale_exp", rpick({0, -45, -60, -200, 40, 200}));
    c.putI("via_level", rweighted({3, 1}));
    c.putI("y_kind", kind());
    c.putU("y_seed", rseed());
    c.putI("probe", (p.nr() * p.ntheta() <= 400 && (lines || rint(0, 3) == 0)) ? 1 : 0);
    return c;
}

int main(int argc, char** argv)
{
    return harnessMain(argc, argv, "C05 symmetric positive definite", genCase, runCase);
}
