// FLAVOURS: rel asan
// LIBS: none
// C16: sparse LU solves every system with non-vanishing pivots, in any storage order.
#include "engine.h"
#include "sparselu_case.h"

int main(int argc, char** argv)
{
    return harnessMain(argc, argv, "C16 sparse LU", genSparseLUCase, runSparseLUCase);
}
