// FLAVOURS: rel asan
// C19: shipped test problems are consistent manufactured solutions.
//   geometry, problem, alpha, beta (the selection tuple), kappa_eps, delta_e, Rmax, alpha_jump, R0, npoints, point_seed
// Oracle: 8th-order central differences (three step sizes, the best one counts):
//   (a) Jacobian functions = partial derivatives of (Fx,Fy);  (b) f = -(1/|det|) d_i(alpha |det| g^ij d_j u) + beta u;
//   (c) boundary data = exact solution on the boundary;       (d) gyro profiles: alpha*beta = 1, else beta = 0, alpha > 0.
#include <omp.h>
#include "engine.h"
#include "solver_cfg.h"

typedef long double LD;

// 8th-order central first derivative weights for offsets 1..4
static const LD W8[4] = {4.0L / 5.0L, -1.0L / 5.0L, 4.0L / 105.0L, -1.0L / 280.0L};

template <class F>
static LD diff8(F f, LD x, LD h)
{
    LD s = 0;
    for (int k = 1; k <= 4; k++)
        s += W8[k - 1] * ((LD)f(x + k * h) - (LD)f(x - k * h));
    return s / h;
}

struct Fns {
    const DomainGeometry* geo;
    const DensityProfileCoefficients* co;
    const ExactSolution* ex;
    const SourceTerm* src;
    const BoundaryConditions* bc;
    double u(LD r, LD t) const
    {
        double rr = (double)r, tt = (double)t;
        return ex->exact_solution(rr, tt, std::sin(tt), std::cos(tt));
    }
    void jac(LD r, LD t, LD& xr, LD& yr, LD& xt, LD& yt) const
    {
        double rr = (double)r, tt = (double)t, s = std::sin(tt), c = std::cos(tt);
        xr = geo->dFx_dr(rr, tt, s, c);
        yr = geo->dFy_dr(rr, tt, s, c);
        xt = geo->dFx_dt(rr, tt, s, c);
        yt = geo->dFy_dt(rr, tt, s, c);
    }
};

static Outcome runCase(const KV& c)
{
    Outcome o;
    SolverCfg cfg = SolverCfg::get(c);
    const int npoints = (int)c.getI("npoints");
    char tup[32];
    snprintf(tup, sizeof tup, "g%dp%da%db%d", cfg.geometry, cfg.problem, cfg.alpha, cfg.beta);
    // An earlier object of the same classes with OTHER parameters, fully evaluated first and still alive while the tested
    // one is judged: the input functions must be functions of their own object's parameters only (no state shared between
    // objects of a class). The history is part of the case, so a failure replays in a fresh process.
    std::unique_ptr<GMGPolar> earlier;
    if (c.has("w_geometry")) {
        o.cls("with_earlier_object");
        try {
            SolverCfg w = SolverCfg::get(c, "w_");
            earlier     = w.make();
            const DomainGeometry* g             = GMGPolarVerifAccess::geometry(*earlier);
            const DensityProfileCoefficients* a = GMGPolarVerifAccess::coefficients(*earlier);
            const ExactSolution* e              = GMGPolarVerifAccess::exact(*earlier);
            const SourceTerm* f                 = GMGPolarVerifAccess::source(*earlier);
            const BoundaryConditions* b         = GMGPolarVerifAccess::boundary(*earlier);
            volatile double sink = 0;
            for (int k = 0; k < 3; k++) {
                const double r = w.R0 + (w.Rmax - w.R0) * (0.2 + 0.3 * k), t = 0.7 + 1.9 * k, st = std::sin(t), ct = std::cos(t);
                if (g)
                    sink = sink + g->Fx(r, t, st, ct) + g->Fy(r, t, st, ct) + g->dFx_dr(r, t, st, ct) + g->dFy_dr(r, t, st, ct) + g->dFx_dt(r, t, st, ct) +
                           g->dFy_dt(r, t, st, ct);
                if (a)
                    sink = sink + a->alpha(r) + a->beta(r) + a->getAlphaJump();
                if (e)
                    sink = sink + e->exact_solution(r, t, st, ct);
                if (f)
                    sink = sink + f->rhs_f(r, t, st, ct);
                if (b)
                    sink = sink + b->u_D(w.Rmax, t, st, ct) + b->u_D_Interior(w.R0, t, st, ct);
            }
        }
        catch (const std::exception&) {
        }
    }
    std::unique_ptr<GMGPolar> s;
    try {
        s = cfg.make();
    }
    catch (const std::exception& e) {
        // the selection table rejects this tuple
        o.cls(std::string("tuple_rejected_") + tup);
        o.nontrivial = true;
        o.signature  = std::string("R") + tup;
        return o;
    }
    o.cls(std::string("tuple_") + tup);
    Fns F{GMGPolarVerifAccess::geometry(*s), GMGPolarVerifAccess::coefficients(*s), GMGPolarVerifAccess::exact(*s),
          GMGPolarVerifAccess::source(*s), GMGPolarVerifAccess::boundary(*s)};
    if (!F.geo || !F.co || !F.src || !F.bc) {
        o.fail("selection", "selection table left an input function unset");
        return o;
    }
    const double Rmax = cfg.Rmax, R0 = cfg.R0;
    const bool culham = cfg.geometry == 3;
    Rnd rnd(c.getU("point_seed"));
    char pb[40];
    snprintf(pb, sizeof pb, "k%.0f/%.0f", cfg.kappa_eps * 10, cfg.delta_e * 10);
    o.signature  = std::string(tup) + pb + "R" + std::to_string((int)(Rmax * 10));
    o.nontrivial = true;

    // (d) profiles
    const bool gyro = cfg.beta == 1 && cfg.alpha != 0;
    for (int k = 0; k < 16; k++) {
        double r = R0 + (Rmax - R0) * rnd.uni();
        double a = F.co->alpha(r), b = F.co->beta(r);
        if (!(a > 0)) {
            o.fail("alpha_positive", "alpha(r) is not positive");
            return o;
        }
        if (gyro) {
            if (std::fabs(a * b - 1.0) > 8 * 2.2e-16) {
                char buf[160];
                snprintf(buf, sizeof buf, "gyro profile: alpha*beta = %.17g at r=%.6g", a * b, r);
                o.fail("gyro_beta", buf);
                return o;
            }
        }
        else if (b != 0.0) {
            o.fail("beta_zero", "non-gyro profile has beta != 0");
            return o;
        }
    }
    // (c) boundary data
    if (F.ex && !culham)
        for (int k = 0; k < 12; k++) {
            double t = k < 4 ? k * M_PI / 2 : 2 * M_PI * rnd.uni();
            double st = std::sin(t), ct = std::cos(t);
            double ub = F.bc->u_D(Rmax, t, st, ct), ue = F.ex->exact_solution(Rmax, t, st, ct);
            double ui = F.bc->u_D_Interior(R0, t, st, ct), uei = F.ex->exact_solution(R0, t, st, ct);
            if (std::fabs(ub - ue) > 1e-13 * (std::fabs(ue) + 1e-3) || std::fabs(ui - uei) > 1e-13 * (std::fabs(uei) + 1e-3)) {
                char buf[240];
                snprintf(buf, sizeof buf, "boundary data differ from the exact solution at theta=%.6g: outer %.17g vs %.17g, inner %.17g vs %.17g", t, ub, ue,
                         ui, uei);
                o.fail("boundary_data", buf);
                return o;
            }
        }
    // (e) the library evaluates these objects from inside its parallel regions (uncached coefficients/geometry, right-hand
    // side): evaluated concurrently by several threads, each at its own points and each point twice in a row, every
    // function must return exactly what it returns sequentially ("at every point" has no single-thread exemption)
    if (const int T = (int)c.getI("concurrent_threads", 0); T >= 2) {
        o.cls("concurrent_evaluation");
        const int P = 64, reps = 40;
        std::vector<double> pr(P), pt(P);
        for (int k = 0; k < P; k++) {
            pr[k] = R0 + (Rmax - R0) * rnd.uni();
            pt[k] = 2 * M_PI * rnd.uni();
        }
        auto evalAll = [&](int k, double* out) {
            const double r = pr[k], t = pt[k], st = std::sin(t), ct = std::cos(t);
            int q = 0;
            out[q++] = F.co->alpha(r);
            out[q++] = F.co->beta(r);
            out[q++] = F.geo->Fx(r, t, st, ct);
            out[q++] = F.geo->Fy(r, t, st, ct);
            out[q++] = F.geo->dFx_dr(r, t, st, ct);
            out[q++] = F.geo->dFy_dr(r, t, st, ct);
            out[q++] = F.geo->dFx_dt(r, t, st, ct);
            out[q++] = F.geo->dFy_dt(r, t, st, ct);
            out[q++] = F.src->rhs_f(r, t, st, ct);
            out[q++] = F.bc->u_D(Rmax, t, st, ct);
            out[q++] = F.bc->u_D_Interior(R0, t, st, ct);
            out[q++] = F.ex ? F.ex->exact_solution(r, t, st, ct) : 0.0;
        };
        const int NV = 12;
        std::vector<double> seq(P * NV);
        for (int k = 0; k < P; k++)
            evalAll(k, &seq[k * NV]);
        long bad = 0;
        int badK = -1, badQ = -1;
        double badV = 0;
#pragma omp parallel num_threads(T) reduction(+ : bad)
        {
            const int me = omp_get_thread_num();
            double v[NV];
            // the cheap functions (profiles) are hammered much harder than the long source-term formulas
            for (int rep = 0; rep < 1500; rep++)
                for (int k = me; k < P; k += T)
                    for (int twice = 0; twice < 2; twice++) {
                        const double a = F.co->alpha(pr[k]), b = F.co->beta(pr[k]);
                        if (std::memcmp(&a, &seq[k * NV], 8) != 0 || std::memcmp(&b, &seq[k * NV + 1], 8) != 0) {
                            bad++;
#pragma omp critical
                            {
                                badK = k;
                                badQ = std::memcmp(&a, &seq[k * NV], 8) != 0 ? 0 : 1;
                                badV = badQ == 0 ? a : b;
                            }
                        }
                    }
            for (int rep = 0; rep < reps; rep++)
                for (int k = me; k < P; k += T)
                    for (int twice = 0; twice < 2; twice++) {
                        evalAll(k, v);
                        for (int q = 0; q < NV; q++)
                            if (std::memcmp(&v[q], &seq[k * NV + q], 8) != 0) {
                                bad++;
#pragma omp critical
                                {
                                    badK = k;
                                    badQ = q;
                                    badV = v[q];
                                }
                            }
                    }
        }
        if (bad > 0) {
            static const char* names[NV] = {"alpha", "beta", "Fx", "Fy", "dFx_dr", "dFy_dr", "dFx_dt", "dFy_dt", "rhs_f", "u_D", "u_D_Interior", "exact_solution"};
            char buf[300];
            snprintf(buf, sizeof buf, "%ld evaluations by %d concurrent threads differ from the sequential value, e.g. %s at r=%.6g theta=%.6g: %.17g vs %.17g", bad, T,
                     names[badQ], pr[badK], pt[badK], badV, seq[badK * NV + badQ]);
            o.fail("concurrent_evaluation", buf);
            return o;
        }
    }
    for (int k = 0; k < npoints; k++) {
        // r: uniform, log-uniform towards R0, near Rmax, near the profile's steep region
        double r;
        switch (k % 4) {
        case 0:
            r = R0 + (Rmax - R0) * rnd.uni();
            break;
        case 1:
            r = R0 * std::pow(Rmax / R0, rnd.uni());
            break;
        case 2:
            r = Rmax * (1 - 0.05 * rnd.uni());
            break;
        default:
            r = std::min(Rmax * 0.999, std::max(R0 * 1.001, cfg.alpha_jump * (0.9 + 0.2 * rnd.uni())));
            break;
        }
        double t = (k % 5 == 0) ? (k / 5 % 4) * M_PI / 2 : 2 * M_PI * rnd.uni();
        // (a) Jacobian
        LD bestJ = 1e300L, scaleJ = 0;
        LD xr, yr, xt, yt;
        F.jac(r, t, xr, yr, xt, yt);
        const double fr[3] = {1.0 / 256, 1.0 / 1024, 1.0 / 4096};
        for (int q = 0; q < 3; q++) {
            LD hr = std::min<LD>(Rmax * fr[q], r / 16), ht = fr[q];
            if (culham) {
                hr = Rmax * 8e-3 / (q + 1); // piecewise linear tables with 1000 knots: wide stencil
                if (r - 4 * hr < 0 || r + 4 * hr > Rmax)
                    continue;
            }
            auto fx = [&](LD rr, LD tt) { double a = (double)rr, b = (double)tt; return F.geo->Fx(a, b, std::sin(b), std::cos(b)); };
            auto fy = [&](LD rr, LD tt) { double a = (double)rr, b = (double)tt; return F.geo->Fy(a, b, std::sin(b), std::cos(b)); };
            LD dxr = diff8([&](LD x) { return fx(x, t); }, r, hr), dyr = diff8([&](LD x) { return fy(x, t); }, r, hr);
            LD dxt = diff8([&](LD x) { return fx(r, x); }, t, ht), dyt = diff8([&](LD x) { return fy(r, x); }, t, ht);
            LD m = std::max(std::max(fabsl(dxr - xr), fabsl(dyr - yr)), std::max(fabsl(dxt - xt), fabsl(dyt - yt)));
            bestJ  = std::min(bestJ, m);
            scaleJ = std::max(std::max(fabsl(xr), fabsl(yr)), std::max(fabsl(xt), fabsl(yt))) + 1.0L / Rmax;
        }
        if (culham && !(bestJ < 1e299L) && r < 0.05 * Rmax) {
            // Culham near the origin (the wide stencil does not fit): the tables are piecewise linear in r with a mesh of
            // Rmax/1000, so a narrow central difference (step r/8) returns the local slope; the tabulated derivative terms
            // agree with it to a few 1e-4 of the scale (measured on the unchanged tree), a wrong table entry is off by 1e-2
            auto fx = [&](LD rr, LD tt) { double a = (double)rr, b = (double)tt; return F.geo->Fx(a, b, std::sin(b), std::cos(b)); };
            auto fy = [&](LD rr, LD tt) { double a = (double)rr, b = (double)tt; return F.geo->Fy(a, b, std::sin(b), std::cos(b)); };
            const LD hr = (LD)r / 8, ht = 1.0L / 1024;
            LD dxr = diff8([&](LD x) { return fx(x, t); }, r, hr), dyr = diff8([&](LD x) { return fy(x, t); }, r, hr);
            LD dxt = diff8([&](LD x) { return fx(r, x); }, t, ht), dyt = diff8([&](LD x) { return fy(r, x); }, t, ht);
            const LD m  = std::max(std::max(fabsl(dxr - xr), fabsl(dyr - yr)), std::max(fabsl(dxt - xt), fabsl(dyt - yt)));
            const LD sc = std::max(std::max(fabsl(xr), fabsl(yr)), std::max(fabsl(xt), fabsl(yt))) + 1.0L / Rmax;
            const LD tolIn = 3e-3L * sc;
            o.mx("culham_inner_jacobian_err_over_tol", (double)(m / tolIn));
            o.cls("culham_inner_region_judged");
            if (m > tolIn) {
                char buf[300];
                snprintf(buf, sizeof buf, "Culham: Jacobian functions differ from the local slopes of (Fx,Fy) near the origin, r=%.6g theta=%.6g: max difference %.3Le (tol %.3Le)",
                         r, t, m, tolIn);
                o.fail("jacobian", buf);
                return o;
            }
        }
        if (bestJ < 1e299L) {
            const LD tolJ = (culham ? 2e-4L : 1e-7L) * scaleJ;
            o.mx(culham ? "culham_jacobian_err_over_tol" : "jacobian_err_over_tol", (double)(bestJ / tolJ));
            if (bestJ > tolJ) {
                char buf[300];
                snprintf(buf, sizeof buf, "Jacobian functions differ from the derivatives of (Fx,Fy) at r=%.6g theta=%.6g: max difference %.3Le (tol %.3Le); J=(%.6Lg %.6Lg; %.6Lg %.6Lg)",
                         r, t, bestJ, tolJ, xr, xt, yr, yt);
                o.fail("jacobian", buf);
                return o;
            }
        }
        if (culham || !F.ex)
            continue;
        // (b) source term
        LD best = 1e300L, bestTol = 0;
        const LD fcode = F.src->rhs_f(r, t, std::sin(t), std::cos(t));
        // all combinations of three radial and three angular step sizes; the best one counts (a wrong formula
        // mismatches at every step size, truncation and round-off do not)
        const double ft[3] = {1.0 / 64, 1.0 / 256, 1.0 / 1024};
        for (int q2 = 0; q2 < 9; q2++) {
            const int q = q2 / 3;
            const LD hr = std::min<LD>(Rmax * fr[q], r / 16), ht = ft[q2 % 3];
            LD termsum = 0;
            auto flux = [&](LD rr, LD tt, int comp) -> LD {
                LD a_r, b_r, a_t, b_t;
                F.jac(rr, tt, a_r, b_r, a_t, b_t); // xr yr xt yt
                const LD det = a_r * b_t - a_t * b_r, ad = fabsl(det);
                const LD grr = (b_t * b_t + a_t * a_t) / (det * det), gtt = (b_r * b_r + a_r * a_r) / (det * det),
                         grt = (-b_t * b_r - a_t * a_r) / (det * det);
                const LD ur = diff8([&](LD x) { return F.u(x, tt); }, rr, hr), ut = diff8([&](LD x) { return F.u(rr, x); }, tt, ht);
                const LD al = F.co->alpha((double)rr);
                return comp == 0 ? al * ad * (grr * ur + grt * ut) : al * ad * (grt * ur + gtt * ut);
            };
            const LD dFr = diff8([&](LD x) { return flux(x, t, 0); }, r, hr), dFt = diff8([&](LD x) { return flux(r, x, 1); }, t, ht);
            LD a_r, b_r, a_t, b_t;
            F.jac(r, t, a_r, b_r, a_t, b_t);
            const LD ad = fabsl(a_r * b_t - a_t * b_r);
            const LD bu = (LD)F.co->beta(r) * (LD)F.u(r, t);
            const LD fref = -(dFr + dFt) / ad + bu;
            termsum       = (fabsl(dFr) + fabsl(dFt)) / ad + fabsl(bu) + fabsl(flux(r, t, 0)) / (ad * r) + 1e-3L;
            const LD mism = fabsl(fref - fcode);
            if (mism / termsum < best) {
                best    = mism / termsum;
                bestTol = termsum;
            }
        }
        o.mx("source_term_rel_mismatch_problem" + std::to_string(cfg.problem), (double)best);
        if (best > 1e-7L && getenv("VERIF_DEBUG"))
            fprintf(stderr, "DBG %s r=%.6g t=%.6g R0=%.3g Rmax=%.3g k=%.3g d=%.3g mism=%.3Le f=%.6Lg termsum=%.3Le\n", tup, r, t, R0, Rmax,
                    cfg.kappa_eps, cfg.delta_e, best, fcode, bestTol);
        if (best > 1e-6L) {
            char buf[300];
            snprintf(buf, sizeof buf, "source term at r=%.6g theta=%.6g is %.12Lg but -div(alpha grad u)+beta u of the exact solution differs by %.3Le relative to the sum of the flux terms %.3Le",
                     r, t, fcode, best, bestTol);
            o.fail("source_term", buf);
            return o;
        }
    }
    return o;
}

static KV genCase()
{
    KV c;
    SolverCfg s;
    s.geometry = rint(0, 3);
    s.problem  = rint(0, 3);
    s.alpha    = rint(0, 3);
    s.beta     = rint(0, 1);
    genGeometryParams(s);
    if (rint(0, 2) == 0)
        s.Rmax = runi(0.5, 2.0);
    s.alpha_jump = rint(0, 5) == 0 ? 0.0 : s.Rmax * runi(0.3, 0.9); // 0 is the command-line default of --alpha_jump
    s.R0         = s.Rmax * rpick({1e-5, 1e-3, 1e-2, 0.1});
    s.put(c);
    if (rbool()) {
        // same classes, other parameters (half of them differ in the shape parameters only)
        SolverCfg w = s;
        genGeometryParams(w);
        if (w.geometry == 1) {
            w.kappa_eps = runi(0.0, 0.5);
            w.delta_e   = runi(0.0, 0.4 * (1 - w.kappa_eps));
        }
        else if (w.geometry == 2) {
            w.kappa_eps = runi(0.1, 0.6);
            w.delta_e   = runi(0.7, 1.8);
        }
        if (rbool()) {
            w.Rmax       = runi(0.5, 2.0);
            w.alpha_jump = w.Rmax * runi(0.3, 0.9);
            w.R0         = w.Rmax * rpick({1e-5, 1e-3, 1e-2, 0.1});
        }
        else {
            w.Rmax       = s.Rmax;
            w.R0         = s.R0;
            w.alpha_jump = s.alpha_jump;
        }
        w.put(c, "w_");
    }
    c.putI("npoints", 24);
    c.putU("point_seed", rseed());
    c.putI("concurrent_threads", rint(0, 11) == 0 ? rpick({2, 4, 8}) : 0);
    return c;
}

int main(int argc, char** argv)
{
    return harnessMain(argc, argv, "C19 manufactured solutions", genCase, runCase);
}
