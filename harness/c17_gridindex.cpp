// FLAVOURS: rel asan
// C17: grid node numbering is a bijection consistent with geometry and periodicity.
//   radii[], angles[], split_mode (0 automatic, 1 explicit), split, probe_seed, expect_reject
#include "gridindex_case.h"

int main(int argc, char** argv)
{
    return harnessMain(argc, argv, "C17 grid indexing", genGridIndexCase, runGridIndexCase);
}
