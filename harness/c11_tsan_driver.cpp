// FLAVOURS: tsan
// Child process of the C11 harness, built with -fsanitize=thread and run under the Archer OMPT tool:
//   c11_tsan_driver CASEFILE THREADS
// Executes the operator of the case twice with THREADS threads (ThreadSanitizer keeps only a bounded access history per
// memory word) and once with one thread; prints the largest relative deviation between the parallel and the serial result.
#define VERIF_NO_RAPIDCHECK
#include "c11_ops.h"

int main(int argc, char** argv)
{
    if (argc < 3) {
        fprintf(stderr, "usage: %s CASEFILE THREADS\n", argv[0]);
        return 2;
    }
    KV c              = KV::load(argv[1]);
    const int threads = atoi(argv[2]);
    try {
        std::vector<double> a = runOp11(c, threads);
        std::vector<double> b = runOp11(c, threads);
        std::vector<double> s = runOp11(c, 1);
        double scale = 0, d1 = 0, d2 = 0;
        bool sizeOk = a.size() == s.size() && b.size() == s.size();
        for (size_t i = 0; sizeOk && i < s.size(); i++) {
            scale = std::max(scale, std::fabs(s[i]));
            d1    = std::max(d1, std::fabs(a[i] - s[i]));
            d2    = std::max(d2, std::fabs(a[i] - b[i]));
        }
        printf("RESULT size_ok=%d n=%zu scale=%.6e par_vs_serial=%.6e run_vs_run=%.6e\n", sizeOk ? 1 : 0, s.size(), scale, d1, d2);
    }
    catch (const std::exception& e) {
        printf("RESULT exception=%s\n", e.what());
    }
    fflush(stdout);
    return 0;
}
