// Schedule perturbation for the ThreadSanitizer children of C11 (tsan flavour only, built as libverif_sched.so).
//
// ThreadSanitizer + Archer decide "race / no race" from happens-before, so a racy pair of accesses is reported whenever the
// two accesses land on different threads - but *which* thread executes an `omp single`, a `dynamic`/`guided` chunk or a
// `nowait` successor is decided by arrival order, and with an unperturbed runtime the encountering thread always arrives
// first (the workers have to be woken). A race that needs "a worker wins the single" is then invisible in every run.
//
// This is an OMPT tool that wraps the Archer tool: it loads libarcher.so, forwards everything to it, and interposes on the
// three callbacks that mark a thread's arrival (implicit-task begin, barrier end, work begin). After Archer's own callback
// has run, the thread is delayed by a pseudo-random amount derived from VERIF_SCHED_SEED, its thread number and a per-thread
// event counter (0, 0.1, 0.5 or 2 ms; thread 0 is delayed more often than the others). The total delay per process is capped
// (VERIF_SCHED_BUDGET_US, default 400 ms) so that whole solves with thousands of regions stay affordable.
// Nothing here changes OpenMP semantics: only arrival order, which no correct program may depend on.
#include <omp-tools.h>
#include <atomic>
#include <cstdint>
#include <cstdio>
#include <cstdlib>
#include <cstring>
#include <dlfcn.h>
#include <time.h>
#include <unistd.h>
#include <sys/syscall.h>

namespace
{
ompt_initialize_t g_archer_init          = nullptr;
ompt_function_lookup_t g_real_lookup     = nullptr;
ompt_set_callback_t g_real_set_callback  = nullptr;
ompt_callback_implicit_task_t g_chain_it = nullptr;
ompt_callback_sync_region_t g_chain_sr   = nullptr;
ompt_callback_work_t g_chain_wk          = nullptr;
bool g_set_it = false, g_set_sr = false, g_set_wk = false;
uint64_t g_seed = 0;
std::atomic<long> g_budget_us{400000};
std::atomic<long> g_delays{0};
thread_local uint64_t t_counter = 0;
thread_local int t_index        = -1;

inline uint64_t mix(uint64_t x)
{
    x += 0x9e3779b97f4a7c15ULL;
    x = (x ^ (x >> 30)) * 0xbf58476d1ce4e5b9ULL;
    x = (x ^ (x >> 27)) * 0x94d049bb133111ebULL;
    return x ^ (x >> 31);
}

void perturb(int where)
{
    if (g_seed == 0)
        return;
    const uint64_t h = mix(g_seed ^ mix((uint64_t)(t_index + 1) * 1315423911ULL + (t_counter++) * 2654435761ULL + (uint64_t)where));
    // thread 0 (the encountering thread, first to arrive otherwise): delayed in 3 of 4 events; others in 1 of 3
    const bool delay = t_index == 0 ? (h & 3) != 0 : (h % 3) == 0;
    if (!delay)
        return;
    static const long kUs[4] = {100, 500, 500, 2000};
    const long us           = kUs[(h >> 8) & 3];
    if (g_budget_us.fetch_sub(us) <= 0)
        return;
    g_delays++;
    // busy wait on the monotonic clock through the raw system call: no libc function ThreadSanitizer intercepts is
    // involved (an intercepted nanosleep called from this uninstrumented library would be treated as synchronisation)
    struct timespec t0, t1;
    syscall(SYS_clock_gettime, CLOCK_MONOTONIC, &t0);
    for (;;) {
        syscall(SYS_clock_gettime, CLOCK_MONOTONIC, &t1);
        const long el = (t1.tv_sec - t0.tv_sec) * 1000000L + (t1.tv_nsec - t0.tv_nsec) / 1000L;
        if (el >= us)
            break;
        if (us >= 500)
            syscall(SYS_sched_yield);
    }
}

void on_implicit_task(ompt_scope_endpoint_t endpoint, ompt_data_t* parallel_data, ompt_data_t* task_data, unsigned int actual_parallelism,
                      unsigned int index, int flags)
{
    if (g_chain_it)
        g_chain_it(endpoint, parallel_data, task_data, actual_parallelism, index, flags);
    if (endpoint == ompt_scope_begin && actual_parallelism > 1) {
        t_index = (int)index;
        perturb(1);
    }
}

void on_sync_region(ompt_sync_region_t kind, ompt_scope_endpoint_t endpoint, ompt_data_t* parallel_data, ompt_data_t* task_data,
                    const void* codeptr_ra)
{
    if (g_chain_sr)
        g_chain_sr(kind, endpoint, parallel_data, task_data, codeptr_ra);
    // leaving a barrier inside a region: the arrival order at whatever follows
    if (endpoint == ompt_scope_end && t_index >= 0 && kind != ompt_sync_region_barrier_implicit_parallel)
        perturb(2);
}

void on_work(ompt_work_t wstype, ompt_scope_endpoint_t endpoint, ompt_data_t* parallel_data, ompt_data_t* task_data, uint64_t count,
             const void* codeptr_ra)
{
    if (g_chain_wk)
        g_chain_wk(wstype, endpoint, parallel_data, task_data, count, codeptr_ra);
    if (wstype == ompt_work_single_executor && endpoint == ompt_scope_begin && getenv("VERIF_SCHED_DEBUG"))
        fprintf(stderr, "verif_sched: single executed by thread %d\n", t_index);
    // end of a nowait worksharing construct: the arrival order at the next one
    if (endpoint == ompt_scope_end && t_index >= 0)
        perturb(3);
}

ompt_set_result_t my_set_callback(ompt_callbacks_t event, ompt_callback_t cb)
{
    if (event == ompt_callback_implicit_task) {
        g_chain_it = (ompt_callback_implicit_task_t)cb;
        g_set_it   = true;
        return g_real_set_callback(event, (ompt_callback_t)&on_implicit_task);
    }
    if (event == ompt_callback_sync_region) {
        g_chain_sr = (ompt_callback_sync_region_t)cb;
        g_set_sr   = true;
        return g_real_set_callback(event, (ompt_callback_t)&on_sync_region);
    }
    if (event == ompt_callback_work) {
        g_chain_wk = (ompt_callback_work_t)cb;
        g_set_wk   = true;
        return g_real_set_callback(event, (ompt_callback_t)&on_work);
    }
    return g_real_set_callback(event, cb);
}

ompt_interface_fn_t my_lookup(const char* name)
{
    if (strcmp(name, "ompt_set_callback") == 0)
        return (ompt_interface_fn_t)&my_set_callback;
    return g_real_lookup(name);
}

int my_initialize(ompt_function_lookup_t lookup, int initial_device_num, ompt_data_t* tool_data)
{
    g_real_lookup       = lookup;
    g_real_set_callback = (ompt_set_callback_t)lookup("ompt_set_callback");
    const int r         = g_archer_init(my_lookup, initial_device_num, tool_data);
    if (!g_set_it)
        g_real_set_callback(ompt_callback_implicit_task, (ompt_callback_t)&on_implicit_task);
    if (!g_set_sr && !getenv("VERIF_SCHED_NO_SR"))
        g_real_set_callback(ompt_callback_sync_region, (ompt_callback_t)&on_sync_region);
    if (!g_set_wk && !getenv("VERIF_SCHED_NO_WK"))
        g_real_set_callback(ompt_callback_work, (ompt_callback_t)&on_work);
    fprintf(stderr, "verif_sched: wrapping Archer (its callbacks: implicit_task=%d sync_region=%d work=%d), seed=%llu budget_us=%ld\n", (int)g_set_it,
            (int)g_set_sr, (int)g_set_wk, (unsigned long long)g_seed, g_budget_us.load());
    return r;
}
struct Report {
    ~Report()
    {
        if (getenv("VERIF_SCHED_DEBUG"))
            fprintf(stderr, "verif_sched: %ld delays injected, budget left %ld us\n", g_delays.load(), g_budget_us.load());
    }
} g_report;
} // namespace

extern "C" ompt_start_tool_result_t* ompt_start_tool(unsigned int omp_version, const char* runtime_version)
{
    const char* path = getenv("VERIF_ARCHER_LIB");
    void* h          = dlopen(path ? path : "/usr/lib/llvm-14/lib/libarcher.so", RTLD_NOW | RTLD_LOCAL);
    if (!h)
        return nullptr;
    typedef ompt_start_tool_result_t* (*start_t)(unsigned int, const char*);
    start_t archer_start = (start_t)dlsym(h, "ompt_start_tool");
    if (!archer_start)
        return nullptr;
    ompt_start_tool_result_t* res = archer_start(omp_version, runtime_version);
    if (!res)
        return nullptr;
    if (const char* s = getenv("VERIF_SCHED_SEED"))
        g_seed = strtoull(s, nullptr, 10);
    if (const char* b = getenv("VERIF_SCHED_BUDGET_US"))
        g_budget_us = atol(b);
    g_archer_init   = res->initialize;
    res->initialize = &my_initialize;
    return res;
}
