// FLAVOURS: asan rel
// C20: every option combination is either rejected cleanly or runs without UB; statistics are well defined.
//   part=api: SolverCfg with the full (also invalid) value ranges + grid_file (0 none, 1 coarsenable, 2 non-coarsenable)
//   part=cli: argv=<tokens separated by \x1f>
#include "options_case.h"

int main(int argc, char** argv)
{
    return harnessMain(argc, argv, "C20 options", genOptionsCase, runOptionsCase);
}
