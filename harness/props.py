# Per-property configuration of the check driver.
FLAVOURS = {
    # as the project builds (g++, libgomp), asserts on
    "rel": dict(cxx="g++", flags="-O2 -fopenmp -DGMGPOLAR_VERIF"),
    # clang + ASan/UBSan; library objects carry fuzzer coverage instrumentation
    "asan": dict(cxx="clang++",
                 flags="-O1 -g -fopenmp -fsanitize=address,undefined -fno-sanitize-recover=undefined "
                       "-fsanitize=fuzzer-no-link -DGMGPOLAR_VERIF",
                 # malloc_context_size: with the default of 30 frames every allocation made under rapidcheck's deep, varying call
                 # chains is a new entry of ASan's stack depot, which never shrinks (30 KB per case: a thorough worker reached
                 # 4 GB and was killed by the kernel); three frames keep a worker at ~200 MB and detect exactly the same errors
                 env={"ASAN_OPTIONS": "detect_leaks=0:abort_on_error=1:allocator_may_return_null=1:malloc_context_size=3:quarantine_size_mb=64",
                      "UBSAN_OPTIONS": "print_stacktrace=1:halt_on_error=1"}),
    # clang + ThreadSanitizer, OpenMP happens-before through Archer
    "tsan": dict(cxx="clang++", flags="-O1 -g -fopenmp -fsanitize=thread -DGMGPOLAR_VERIF",
                 env={"OMP_TOOL_LIBRARIES": "/usr/lib/llvm-14/lib/libarcher.so",
                      "TSAN_OPTIONS": "ignore_noninstrumented_modules=1:halt_on_error=0:exitcode=66",
                      "ARCHER_OPTIONS": "verbose=1"}),
}

PROPS = {}

PROPS["C14"] = dict(
    harness="c14_tridiag", flavour="asan",
    quick=dict(workers=16, cases=48000, min_nontrivial=200, budget_s=900),
    thorough=dict(workers=16, cases=800000, min_nontrivial=2000, budget_s=3000,
                  fuzz=dict(target="f14_tridiag", runs=400000, jobs=8, max_len=2048)),
    rule="SPD (cyclic) symmetric tridiagonal systems built by construction: strictly diagonally dominant with "
         "sub-diagonals of either sign and zeros (dom), L*D*L^T from random unit bidiagonal L and positive D (ldl), "
         "C^T*C with a (cyclic) bidiagonal non-singular C (ctc), each optionally followed by a symmetric scaling "
         "S*A*S with S=diag(10^U[-2.5,2.5]); n=2,3 weighted up, n up to 10000; 1-4 right-hand sides of four kinds "
         "(normal, unit, huge dynamic range, constant), the first one solved again last. Non-trivial: some "
         "off-diagonal entry non-zero and (n>=3 or cyclic). Distinct: (n, cyclic, construction class, "
         "floor(log10 kappa), #rhs, rhs kind)."
         " Third session: the solver lives in a std::vector and is relocated (move) or replaced by its copy after the first solve in a third of the cases; a quarter re-state the cyclic flag between solves; n in {10001, 12007, 20000} with 2-4 threads available (diagonally dominant class, Varah's bound on the condition number)."
         " Rounds 8/9: cyclic systems with all entries times 2^k, |k| <= 60; the DiagonalSolver is relocated like the tridiagonal solver (copy/move constructed, copy/move assigned over another dimension) and solves every right-hand side.",
    technique="property-based testing (rapidcheck) + libFuzzer; differential against a long double reference solver",
    level_text="Generated SPD tridiagonal/cyclic systems are solved by the real solver and compared with an independent "
               "long double reference (dense partial pivoting for n<=64, LDL^T/bordering beyond) under condition-aware "
               "forward and componentwise backward error bounds; repeated solves must be bit-identical. Exploration: "
               "tens of thousands of systems per quick run, millions in the thorough tier; no proof of absence.",
    level_note="Trusted: the long double reference solvers in harness/common/dense.h (cross-checked against each other for "
               "n<=64), the error-bound constants (observed maxima are reported in the evidence), clang ASan/UBSan.",
    assumptions=["dense long double reference with partial pivoting is accurate to ~1e-19*kappa",
                 "matrices whose long double Cholesky fails or kappa_inf>1e13 are outside the domain and discarded (counted)"],
)

# properties without a check (kept current; reason per property)
NOT_APPLICABLE = {}

PROPS["C16"] = dict(
    harness="c16_sparselu", flavour="asan",
    quick=dict(workers=16, cases=12000, min_nontrivial=200, budget_s=900),
    thorough=dict(workers=16, cases=250000, min_nontrivial=2000, budget_s=3000,
                  fuzz=dict(target="f16_sparselu", runs=200000, jobs=8, max_len=1024)),
    rule="Square sparse matrices admitting LU without pivoting by construction: patterns banded/arrow/random density "
         "0.02-0.5/block/9-point x values strictly row-dominant, column-dominant, or the product of a sparse unit-lower L "
         "and an upper U with |u_ii| in [0.1,10] (not dominant, non-symmetric); rows scaled by 10^U[-k,k], k in {0,3,6,9,12}, "
         "or all rows scaled to 1e-15..1e-12 (class tiny, solved in a forked child so a process exit is observed); "
         "explicit zeros inserted; columns inside a row sorted/reversed/shuffled; all three CSR construction paths; "
         "n=1..60 and 120/300; 1-4 right-hand sides. Non-trivial: fill-in occurs or a row is stored unsorted. "
         "Distinct: (n, pattern+value+scale class, constructor, sortedness, zeros, fill, #rhs, rhs kind, log10 min pivot)."
         " Third session: the solving object is obtained by construction, copy assignment or move assignment onto a solver holding another factorisation (dimension n-1, n, n+2), or copy construction."
         " Round 10: LU-product matrices with rows whose pivot comes from fill-in only (a_ii exactly zero, stored explicitly or absent)."
         " Round 11: in a third of the cases the matrix object is obtained by copy/move assignment over another CSR object (same size and number of entries but other row lengths, or another size).",
    technique="property-based testing (rapidcheck); differential against long double dense LU with Higham's componentwise bound",
    level_text="Generated sparse systems are solved by the real CSR container + SparseLUSolver and judged by the rigorous "
               "componentwise backward bound |b-Ax| <= c*gamma_3n*|L||U||x| (L,U from a long double factorisation "
               "without pivoting) and the implied forward bound against a pivoted long double reference. Exploration only.",
    level_note="Trusted: harness/common/dense.h reference, the constant 8 in the bound (observed maxima in the evidence). "
               "Duplicate (row,col) entries and missing diagonals are outside the documented input domain and not generated.",
    assumptions=["duplicate positions are not generated (their meaning is undocumented)",
                 "matrices whose exact LU meets a zero pivot are discarded (counted)"],
)

PROPS["C15"] = dict(
    harness="c15_objects", flavour="asan",
    quick=dict(workers=16, cases=112000, min_nontrivial=500, budget_s=900),
    thorough=dict(workers=16, cases=3000000, min_nontrivial=5000, budget_s=3000,
                  fuzz=dict(target="f15_objects", runs=100000, jobs=8, max_len=164)),
    rule="Stateful/model-based: command histories (length 0-30, whole-sequence shrinking) over a pool of 4 slots of one "
         "class out of Vector, SparseMatrixCOO, SparseMatrixCSR, SparseLUSolver, SymmetricTridiagonalSolver (cyclic and "
         "not), DiagonalSolver; commands construct / default-construct / set entry / solve / copy-construct / copy-assign "
         "(equal or different size) / move-construct / move-assign / self-assign / destroy. After every command every "
         "live, not moved-from object is compared with a value-semantics model (sizes and entries bitwise; solver objects "
         "after their first solve only through solve results against a dense long double reference). Non-trivial: the "
         "history contains a copy or move taken after the source acquired state (a solve for solver classes, any "
         "content for containers) and a later observation. Distinct: class + sequence of applied command kinds."
         " Third session: std::swap and chained assignment commands; one vector in 25 has 10001-10007 entries and the harness runs with three threads."
         " Round 9: self-move command (x = std::move(x))."
         " Round 11: a quarter of the set commands on tridiagonal solvers toggle is_cyclic.",
    technique="stateful property-based testing (rapidcheck command sequences) against a value-semantics reference model, under ASan/UBSan",
    level_text="Model-based exploration of operation histories: the real objects and a trivially correct value model are "
               "driven by the same generated command sequence and compared after every step; ASan/UBSan watch the "
               "special member functions. Exploration of tens of thousands of histories per run, not a proof.",
    level_note="Trusted: the model structs in harness/common/objects_case.h. Moved-from objects are only destroyed or "
               "assigned to (anything else is unspecified by the code).",
    assumptions=["moved-from objects are only destroyed or assigned to",
                 "entry writes to a tridiagonal solver after its first solve are not generated (stored data are factors)"],
)

PROPS["C17"] = dict(
    harness="c17_gridindex", flavour="asan",
    quick=dict(workers=16, cases=80000, min_nontrivial=300, budget_s=900),
    thorough=dict(workers=16, cases=2000000, min_nontrivial=1500, budget_s=3000,
                  fuzz=dict(target="f17_gridindex", runs=200000, jobs=8, max_len=512)),
    rule="Three constructors: 60% PolarGrid(radii, angles[, split]), 30% the parametric constructor the solver uses (nr_exp 2..5, "
         "ntheta_exp -1/2..6, anisotropic_factor 0..3, divideBy2 0..2, refinement radius inside the domain; coordinate arrays as "
         "the grid reports them), 10% the file constructor (arrays written with 17 digits); the grid under test is the constructed "
         "object, a copy-constructed, a copy-assigned (onto a smaller grid) or a twice-moved one (20% each). Vector grids: nr 2..65 (uniform / geometric / random-ratio / midpoint-nested radii, "
         "R0/Rmax from 1e-8 to 0.5), ntheta 2..64 even, powers of two and not (uniform, mirrored non-uniform, "
         "midpoint-nested angles with antipodal partners by construction), automatic split or explicit split below R0, "
         "above Rmax, exactly on a radius, on Rmax, or anywhere between; unwrapped angular indices in +-1e6 and at "
         "INT_MIN/INT_MAX; every grid is coarsened repeatedly down to the smallest grid and each coarse grid re-checked; "
         "5 kinds of inadmissible input (25% of 1 in 4 cases) must be rejected with std::invalid_argument. "
         "Non-trivial: ntheta not a power of two, an explicit/extreme split, or a parametric/file grid. Distinct: (nr, ntheta, #circles, split mode, constructor, divideBy2, anisotropy).",
    technique="property-based testing (rapidcheck) with exhaustive per-grid node marking; round-trip and reference-formula oracles under ASan/UBSan",
    level_text="For each generated grid all N nodes are marked to prove index/multiIndex are mutually inverse bijections "
               "onto 0..N-1 on that grid; fast vs reference functions, 64-bit wrap arithmetic, neighbour/spacings vs the "
               "coordinate arrays and the documented split relation are checked, and the whole chain of coarse grids "
               "too. Exploration over generated grids.",
    level_note="Trusted: the oracle formulas in harness/c17_gridindex.cpp (64-bit modulo, coordinate differences).",
    assumptions=["angles without antipodal partner / non-monotone arrays are inadmissible and must raise std::invalid_argument"],
)

PROPS["C18"] = dict(
    harness="c18_gridgen", flavour="asan",
    quick=dict(workers=16, cases=40000, min_nontrivial=200, budget_s=900),
    thorough=dict(workers=16, cases=400000, min_nontrivial=1000, budget_s=3000,
                  fuzz=dict(target="f18_gridfiles", runs=200000, jobs=8, max_len=600)),
    rule="PolarGrid(R0,Rmax,nr_exp,ntheta_exp,refinement_radius,anisotropic_factor,divideBy2) with nr_exp 0..7, "
         "ntheta_exp -1..9, anisotropic_factor -1..nr_exp+1, divideBy2 0..3, R0/Rmax 1e-8..0.5, refinement radius 0 "
         "(command-line default), R0, Rmax, -1, 2*Rmax, 1%/2%/98%/99% into the domain, or uniform inside; max-level caps "
         "-1,0,1,2,3,4,6; file modes: none / write(precision 12,15,18)+load / missing / empty / byte-mutated valid file. "
         "Either a std::exception or: validity predicate, exact R0/Rmax, uniform antipodal angles, midpoint nesting, "
         "bitwise containment in the divideBy2+1 grid, level count L from the solver (friend accessor, plus the real "
         "setup() on small grids) admits L-1 coarsenings, file round trip within 10^-p. ASan/UBSan/asserts silent. "
         "Non-trivial: anisotropic_factor>=1 or divideBy2>=1 or a file case. Distinct: (nr_exp, ntheta_exp, aniso, "
         "div, file mode, decile of refinement position, level cap)."
         " Third session: Rmax also 10^U[-2,4] with a non-round mantissa, precisions 12-16 and 18; written files re-laid-out (1-5 numbers per line, tabs, blank lines) must load as the identical grid; one line inserted into / deleted from one half of the angle file: exception or a grid whose every angle has its antipodal partner."
         " Round 10: radii up to 1e8, written precisions 12..18, 24, 30, 40.",
    technique="property-based testing (rapidcheck) under ASan/UBSan/assert; validity-predicate and metamorphic (refinement nesting, file round-trip) oracles",
    level_text="Generated parameter vectors (including the out-of-domain refinement radii the command line defaults to) "
               "drive the real grid constructor, the solver's own finest-grid/level-count code and the file I/O; every "
               "accepted grid must satisfy an executable validity predicate and the metamorphic nesting/round-trip "
               "relations, every rejection must be an exception. Exploration.",
    level_note="Trusted: the validity predicate in harness/c18_gridgen.cpp; sanitizers for out-of-bounds detection.",
    assumptions=["R0 < Rmax (the constructor asserts it; the property quantifies over R0<Rmax)"],
)

PROPS["C03"] = dict(
    harness="c03_operator", flavour="rel",
    quick=dict(workers=16, cases=32000, min_nontrivial=300, budget_s=900),
    thorough=dict(workers=16, cases=300000, min_nontrivial=3000, budget_s=3000),
    rule="Admissible grids nr 4..41 x ntheta 4..48 (even; plus ~2.5% grids with 10k-25k nodes), radii uniform/geometric/"
         "random-ratio/midpoint-nested with R0/Rmax 1e-8..0.5, angles uniform or non-uniform with antipodal partners, "
         "automatic or explicit split covering 0..nr circles; four geometries with parameters in their valid ranges "
         "(Shafranov 2*delta<1-kappa), seven coefficient profiles, both boundary modes, coarsening chains of depth 0..3 "
         "built as setup() does, threads 1,2,3,5,16, vectors u,f of six kinds (normal, smooth, unit, spikes, huge dynamic "
         "range, constant). Every case evaluates give x {4 cache combinations} and take on every level against A_ref "
         "(long double gather stencil), compares coarse caches with fresh ones, and (small grids, 1 in 3) probes the full "
         "matrices of give and take entrywise. Non-trivial: non-circular geometry or non-uniform grid, both sections "
         "non-empty. Distinct: (dims, geometry, profile, BC, #circles, depth, threads)."
         " Third session: 40% of the cases scale all vectors by 2^+-100 or 2^+-300; a fifth call the operators from inside an enclosing parallel region (team of one although several threads were requested); a quarter also evaluate take and give through a Level object first initialised for the other boundary mode."
         " Round 10: Rmax of 1e4..1e7 and holes of 1e-12..1e-14 Rmax (an eighth of the cases each).",
    technique="property-based testing (rapidcheck); differential between five implementations and an independent long double reference operator, entrywise matrix probing",
    level_text="Each generated grid/geometry/profile/vector case runs all five residual implementations on every level of a "
               "harness-built hierarchy and compares them row by row with an independent reference operator under a "
               "per-row rounding bound c*eps*(sum|a_ij||u_j| + |a_ii| max|u| + |f_i|); Dirichlet rows must be exact; "
               "on small grids the complete matrices are probed and compared entrywise with the documented stencil. "
               "Exploration over generated inputs.",
    level_note="Trusted: the reference operator harness/common/refop.h (its mixed-derivative corner weights follow the "
               "documented stencil; its consistency with the PDE is checked separately by C02/C05), the constant c=32 "
               "(observed maxima in the evidence), the DomainGeometry/DensityProfile virtual functions (validated by C19).",
    assumptions=["Shafranov parameters satisfy 2*delta < 0.9*(1-kappa) so that det DF stays away from zero"],
)

PROPS["C05"] = dict(
    harness="c05_spd", flavour="rel",
    quick=dict(workers=16, cases=24000, min_nontrivial=300, budget_s=900),
    thorough=dict(workers=16, cases=200000, min_nontrivial=3000, budget_s=3000),
    rule="Grids/geometries/profiles/boundary modes as C03 (level 0 only); vector pairs x,y zeroed on Dirichlet nodes from "
         "normal, smooth, unit, spikes, huge dynamic range, constant, checkerboard, origin-circle spike and 3 steps of "
         "inverse iteration through the direct solver (approximate lowest eigenvector); give (cached and uncached) and "
         "take, threads 1,2,3,5,16. 1 in 4 small grids (<=400 nodes) is probed: full matrix, entrywise symmetry of the "
         "interior block and long double Cholesky. 1 case in 5 is a small grid the smoothers accept, on which the line "
         "blocks that SmootherGive/Take and (nr odd, >=3 circles) ExtrapolatedSmootherGive/Take actually factorise are "
         "probed through sweeps with x=0, f=e_k (column k of the block inverse on k's line, non-Dirichlet unknowns): "
         "inverse of the operator's principal sub-block, symmetric, positive definite (counter line_blocks_probed). "
         "Non-trivial: non-circular geometry (non-zero mixed terms) or "
         "non-uniform grid. Distinct: (dims, geometry, profile, BC, #circles, threads, vector kinds, probed)."
         " Third session: 40% of the cases scale all vectors by 2^+-100 or 2^+-300."
         " Round 9: the operator is also applied through Level::computeResidual (take and give, re-initialised Level), and y is scaled independently of x (2^-45..2^200).",
    technique="property-based testing (rapidcheck); algebraic-law oracle (bilinear symmetry, positivity) with rounding bounds, plus entrywise symmetry and Cholesky of probed matrices and of the functionally probed smoother line blocks",
    level_text="For generated operators the bilinear form is evaluated through the real residual implementations: "
               "|<Ax,y>-<x,Ay>| must stay below a per-case rounding bound and <Ax,x> must be positive beyond it, also "
               "for adversarial vectors; on small grids the property is decided for that operator by probing the whole "
               "matrix (entrywise symmetry, Cholesky), and the blocks the four smoothers factorise are probed functionally "
               "and must be symmetric positive definite and equal to the operator's line blocks. Exploration over "
               "generated operators.",
    level_note="Trusted: rounding-bound constant c=32 with magnitudes from the reference operator; long double Cholesky. "
               "A quadratic form within the rounding bound of zero is counted as inconclusive, not as a failure.",
    assumptions=["the mapping is a diffeomorphism on the grid (cases with det DF = 0 at a node are discarded and counted)"],
)

PROPS["C04"] = dict(
    harness="c04_directsolver", flavour="rel",
    quick=dict(workers=16, cases=8000, min_nontrivial=150, budget_s=900),
    thorough=dict(workers=16, cases=150000, min_nontrivial=1500, budget_s=3000),
    rule="Grids from the smallest hierarchy level (nr=5, ntheta=4) to 33x40, 2% up to 49x64 (fill-in), all spacing "
         "classes, explicit and automatic splits, four geometries, seven profiles, both boundary modes; "
         "DirectSolverGiveCustomLU (any cache-flag combination) and DirectSolverTakeCustomLU assembled with 1,2,3,5,16 "
         "threads; 1-3 right-hand sides per factorisation of kinds normal/smooth/unit/spikes/huge dynamic range/constant. "
         "Non-trivial: >=40 nodes and non-circular geometry or non-uniform grid. Distinct: (dims, geometry, profile, BC, "
         "#circles, threads, rhs kind)."
         " Third session: 40% of the right-hand sides are scaled by 2^+-300 or 2^+-600 as a whole; a quarter of the cases also go through Level::initializeDirectSolver/directSolveInPlace on a Level first initialised for the other boundary mode."
         " Round 11: a fifth of the cases construct both solvers from inside an enclosing parallel region (short team).",
    technique="property-based testing (rapidcheck); inverse/round-trip oracle (solve then independent residual), differential give vs take",
    level_text="The solution returned by each strategy's direct solver is fed to the other strategy's residual operator "
               "and to the independent reference operator; every row's residual must stay below the row-scaled "
               "normwise LU bound C*n*eps*(|A_i|_1 |x|_inf + |f_i|), and A(x_give-x_take) likewise. Exploration.",
    level_note="Trusted: reference operator (refop.h); constant C=2 (observed maxima in the evidence). Row scaling "
               "invariance of |L||U| justifies the row-wise form of the bound.",
    assumptions=["mapping non-degenerate on the grid"],
)

_SMOOTH_RULE = ("smoothing-admissible grids (ntheta in 4,8,...,64 divisible by 4; >=%d circles and >=3 radial nodes; both "
    "parities of the circle count; explicit and automatic split; uniform/geometric/random/midpoint radii, non-uniform "
    "antipodal angles; R0/Rmax 1e-8..0.5), four geometries, seven profiles, both boundary modes, take and give (all "
    "cache-flag combinations), threads 1,2,3,4,7,16, iterate x and rhs f of six kinds, optionally carrying the boundary "
    "data. 3 of 4 cases (<=15x24 nodes) are additionally compared with the reference zebra relaxation on the probed "
    "matrix (long double block solves), checked for the fixed point %s. Non-trivial: both sections and both colours "
    "present. Distinct: (dims, geometry, profile, BC, #circles, threads, model/invariant-only, boundary data).")

PROPS["C06"] = dict(
    harness="c06_smoother", flavour="rel",
    quick=dict(workers=16, cases=20000, min_nontrivial=300, budget_s=900),
    thorough=dict(workers=16, cases=100000, min_nontrivial=3000, budget_s=3000),
    rule="SmootherGive/SmootherTake on " + _SMOOTH_RULE % (2, "and for energy-norm monotonicity") +
         " Third session: vectors scaled by 2^+-100/2^+-300 in 40% of the cases; one invariant-only case in eight on a grid of 10 000-25 000 nodes (parallel assembly path), there also give == take (1e-4) and multi-threaded == single-threaded objects; a fifth of the cases obtain the sweeps through a Level re-initialised for the other boundary mode."
         " Round 11: an eighth of the cases sweep on a copy of a smoother that has already swept.",
    technique="property-based testing (rapidcheck); model-based oracle (reference zebra relaxation on the probed operator) plus residual, fixed-point and energy-norm invariants",
    level_text="Each generated case runs one real smoothing sweep (both strategies, scratch vector pre-filled with garbage) "
               "and checks: equality with an independent exact zebra line relaxation of the probed operator, zero "
               "residual on the white radial lines (and white circles), Dirichlet values, the exact solution as fixed "
               "point, give==take, and monotone energy norm. Exploration over generated cases.",
    level_note="Trusted: reference operator and dense long double block solves; tolerance 32*eps*kappa(line block)*scale for "
               "model equality (observed maxima in the evidence).",
    assumptions=["mapping non-degenerate on the grid", "the colour order black circles, white circles, black radial, white radial with the outermost circle black is the documented one"],
)

PROPS["C07"] = dict(
    harness="c07_extrapolated_smoother", flavour="rel",
    quick=dict(workers=16, cases=20000, min_nontrivial=300, budget_s=900),
    thorough=dict(workers=16, cases=100000, min_nontrivial=3000, budget_s=3000),
    rule="ExtrapolatedSmootherGive/Take on coarsenable " + _SMOOTH_RULE % (3, "(f := A x for an arbitrary x)") +
         " Third session: as C06 (scaled vectors, grids above 10 000 nodes, re-initialised Level)."
         " Round 11: an eighth of the cases sweep on a copy of a smoother that has already swept.",
    technique="property-based testing (rapidcheck); bitwise invariance of coarse nodes, model-based oracle (reference relaxation restricted to fine-only nodes), residual and fixed-point invariants",
    level_text="Each generated case runs one real extrapolated smoothing sweep (both strategies) and checks that every node of "
               "the next coarser grid is returned bit for bit (memcmp), that the result equals an independent zebra "
               "relaxation whose free set is the fine-only nodes, that the residual vanishes on the fine-only nodes of the "
               "last colour, the fixed point, and give==take. Exploration.",
    level_note="Trusted: as C06.",
    assumptions=["mapping non-degenerate on the grid"],
)

PROPS["C08"] = dict(
    harness="c08_transfer", flavour="rel",
    quick=dict(workers=16, cases=40000, min_nontrivial=300, budget_s=900),
    thorough=dict(workers=16, cases=200000, min_nontrivial=3000, budget_s=3000),
    rule="Fine grids that can be coarsened (nr odd 5..41, ntheta%4==0 8..64, 1% with >10000 nodes for the parallel path), "
         "half of them midpoint-nested (as the grid generator produces), half with free spacing; splits chosen "
         "independently on both levels (coarse level automatic as coarseningGrid or explicit 0..all circles); threads "
         "1,2,5,16; coarse and fine vectors of six kinds; random linear functions a+b*r, a+b*theta (two branch cuts). "
         "Standard and extrapolated pair: adjointness, optimised==reference, injection(P x)==x bitwise, no new extrema, "
         "probed weights >=0 summing to 1 (1 in 3 grids <=600 nodes), linear reproduction at every fine node - "
         "non-midpoint nodes of the standard pair are the recorded finding F6 and are excluded (counted); the "
         "extrapolated pair's 1/2-1/2 rule is only held to midpoint nodes. Non-trivial: non-uniform spacing or >10000 "
         "nodes. Distinct: (dims, circles on both levels, threads, uniform?, probed?)."
         " Third session: level pairs at depths (0,1), (1,2), (2,3); a third of the cases first apply all operators of the Interpolation object under test to another pair (mirrored grid); vectors scaled by 2^+-100/2^+-300 in 40% of the cases.",
    technique="property-based testing (rapidcheck); adjoint-pair, differential (optimised vs reference), round-trip and polynomial-exactness oracles",
    level_text="Generated fine/coarse level pairs exercise all ten transfer operators; algebraic laws (adjointness within a "
               "computed rounding bound, bitwise round trip, convexity, exactness on linear functions) are checked at every "
               "node. Exploration over generated grids and vectors.",
    level_note="Trusted: rounding bound 16*eps*(|y|^T P|x| + |x|^T R|y|) (weights are non-negative so P|x| = |P||x|).",
    assumptions=["coarse grids are obtained by keeping every second node (coarseningGrid)"],
)

PROPS["C09"] = dict(
    harness="c09_fmg", flavour="rel", env={"VERIF_MAX_SHRINK_EVALS": "150"},
    quick=dict(workers=16, cases=5600, min_nontrivial=300, budget_s=900),
    thorough=dict(workers=16, cases=60000, min_nontrivial=3000, budget_s=3000),
    rule="Two parts. interp (2/3): fine/coarse level pairs (nr odd 9..41, ntheta%4==0 8..64, 1% >10000 nodes), half "
         "midpoint-nested half free spacing, independent splits, threads 1,2,5,16; an arbitrary coarse vector is compared at "
         "every fine node with a long double tensor cubic Lagrange model on the real node coordinates (angles unwrapped "
         "around the node), linear-in-r on the two lines next to the boundaries; random polynomials p(r)q(theta) of degree "
         "<=3 and constants checked directly under several branch cuts; all 12+ node classes counted. startup (1/3): "
         "through the API, shipped smooth triples (no Culham), grids 9x16..65x128, L from maxLevels in {-1,2,3,4,5}, FMG "
         "cycle V/W/F, FMG iterations 0..3, extrapolation 0/1, give/take, maxIterations=0, histories fresh / reused after a "
         "different solve / work vectors polluted through the friend accessor; oracle: equality with the harness's nested "
         "iteration (own vectors, reference cycles), equality with a fresh object, start error <= 30x discretisation "
         "error. Non-trivial: non-uniform spacing (interp) or a non-fresh history (startup). Distinct: grid/split/threads/"
         "vector kind resp. hash of the option record + history."
         " Third session: the reference nested iteration builds the right-hand sides of all levels itself and uses its own injection; accuracy judged only when rho^cycles <= 0.2 (hypothesis of the FMG theorem) and on parametric grids; start-up records also through setParameters(argc, argv), with file grids and verbose 0/1/2; interp part: deeper level pairs, Interpolation object used on an earlier pair, scaled vectors."
         " Rounds 9/10: 0 smoothing steps on one side (judged by the equality with the reference nested iteration only); a fifth of the start-up cases use ntheta_exp = nr_exp or nr_exp-1 (hierarchies ending in four angular lines).",
    technique="property-based testing (rapidcheck); model-based oracle (long double Lagrange interpolation), polynomial exactness, differential against a reference nested iteration, metamorphic history independence",
    level_text="The interpolation is compared node by node with an independent Lagrange model and with exact polynomial "
               "values; the start-up is compared with a reference nested iteration written with fresh vectors and with a "
               "fresh solver object, for generated level counts, cycle types and object histories. Exploration.",
    level_note="Trusted: harness/common/ref_cycle.h (uses the solver's own level operators, validated by C03-C08), the "
               "Lagrange model in c09_fmg.cpp. Non-midpoint nodes of the linear fallback rule are finding F6b (excluded, counted).",
    assumptions=["the friend accessor (GMGPOLAR_VERIF) only reads levels_/interpolation_ and overwrites work vectors"],
)

PROPS["C10"] = dict(
    harness="c10_cycles", flavour="rel", env={"VERIF_MAX_SHRINK_EVALS": "150"},
    quick=dict(workers=16, cases=8000, min_nontrivial=300, budget_s=900),
    thorough=dict(workers=16, cases=80000, min_nontrivial=3000, budget_s=3000),
    rule="A GMGPolar object after setup() (shipped smooth triples, grids 9x16..65x128, L in 2..5 via maxLevels, give/take, "
         "both BC modes, threads 1,2,4); through the guarded friend accessor one of the six private cycle functions is run "
         "exactly as solve() calls it, from a generated iterate (normal/smooth/spikes/constant), nu1,nu2 in 0..3, extrapolated "
         "smoothing or full-grid smoothing, with every solution/residual/error_correction vector of levels>=1 and the "
         "level-0 residual pre-filled with generated garbage, twice with different garbage. mode 0: differential against "
         "the reference cycle (fresh vectors per depth; contains nu=0,L=2: u+P A_c^-1 R(f-Au) resp. the 4/3,-1/3 "
         "extrapolated correction); mode 1: f_h:=A_h u, f_c:=A_c Inj u makes u the exact solution, one cycle must return "
         "it within 1e3*eps*kappa_est*|u| (kappa_est: coarsest-level estimate x 4^(L-1)). Non-trivial: L>=3 or nu1+nu2>=1. Distinct: (cycle fn, smoothing mode, L, "
         "nu1, nu2, strategy, BC, dims, mode)."
         " Third session: 2% of the cases on 257x512 grids (thorough also 513x1024) with 2-4 threads and up to 7 levels (level 1/2 above the 10 000-node parallel threshold); records through setParameters(argc, argv) in half of the cases; file grids; verbose 0/1/2 with stdout discarded; the reference uses its own injection; cycles without any smoothing on >= 3 levels are compared with the reference only (not judged by the fixed-point oracle)."
         " Round 10: a quarter of the cases run the full-multigrid start-up on the object first (FMG_iterations 0..2, all cycle types); it must leave the right-hand sides of levels 0 and 1 bitwise unchanged.",
    technique="property-based testing (rapidcheck) through a guarded friend hook; differential against a reference correction scheme, fixed-point and scratch-independence (metamorphic) oracles",
    level_text="Generated (cycle, levels, smoothing counts, iterate, scratch pollution) cases run the real private cycle "
               "functions and compare with an independently written recursive correction scheme using fresh vectors, check "
               "that the exact solution is a fixed point and that the result is bit-identical for different scratch "
               "contents. Exploration.",
    level_note="Trusted: harness/common/ref_cycle.h; the guarded friend accessor GMGPolarVerifAccess; condition estimate from "
               "three direct solves on the coarsest level.",
    assumptions=["setup() with the combined extrapolation mode provides both smoothers and the level-1 right-hand side for all six cycle functions"],
)

PROPS["C13"] = dict(
    harness="c13_reuse", flavour="rel", env={"VERIF_MAX_SHRINK_EVALS": "60"},
    quick=dict(workers=16, cases=320, min_nontrivial=40, budget_s=900),
    thorough=dict(workers=16, cases=6000, min_nontrivial=1000, budget_s=3000),
    rule="Histories of 2-4 rounds over one GMGPolar object: each round applies a (re)drawn option set through the setters "
         "(extrapolation 0/1/2/3 with the combined mode weighted up, FMG on/off with cycle and iteration count, cycle "
         "type, smoothing steps, level cap, maxIterations, norm, tolerances, grid size, strategy; and with smaller "
         "probabilities the interior boundary mode, thread count and reduction factor, R0, anisotropy, divideBy2, the cache "
         "options, or a different shipped problem selected by a second setParameters() call), calls setup() when a "
         "structural option changed (or at random otherwise) and solves once or twice (second solve without setup); 1 in 4 "
         "histories is the convergence_order pattern (only divideBy2 grows). After every solve a fresh object with the "
         "cumulative options is set up and solved; solution must be bit-identical (1 or 2 OpenMP threads), iteration count, "
         "reduction factor and exact errors equal. Non-trivial: >=2 solves with a state-carrying feature (combined mode, FMG, "
         "size change). Distinct: sequence of (setup?, mode, FMG, size, solves) + hash of the first option record."
         " Third session: a third of the later rounds change only options solve() reads and do not call setup(); rounds with both tolerances disabled or 0 iterations; every statistic read after every solve; rejected rounds (take without cache, maxLevels 1, nr_exp 1) followed by reuse, also between setup() and solve(); verbose changes; file grids; setParameters() again with the same tuple and another Rmax; first configuration through setParameters(argc, argv) in half of the cases."
         " Round 9: on a hierarchy set up in COMBINED mode the extrapolation mode is changed without setup(); 0 smoothing steps on one side.",
    technique="stateful property-based testing (rapidcheck command histories) against a fresh-object reference model (differential)",
    level_text="Model-based exploration of call histories on the public API: the reused object and a freshly constructed "
               "one must agree bit for bit after every solve of a generated history. Exploration.",
    level_note="Trusted: bitwise comparison is sound because runs use 1 or 2 OpenMP threads (two-term reductions are "
               "order-independent); structural option changes are followed by setup() as the API documents.",
    assumptions=["solve() without setup() is only generated when no structural option (grid, levels, strategy, extrapolation, FMG, threads) changed since the last setup()"],
)

PROPS["C19"] = dict(
    harness="c19_manufactured", flavour="rel",
    quick=dict(workers=16, cases=48000, min_nontrivial=300, budget_s=900),
    thorough=dict(workers=16, cases=1200000, min_nontrivial=3000, budget_s=3000),
    require_class_prefix=[("tuple_g", 66)],
    rule="Selection tuples (geometry 0..3, problem 0..3, alpha 0..3, beta 0..1) drawn uniformly and pushed through "
         "setParameters (the run fails as an infrastructure error unless all 66+ tuples the table accepts were hit; "
         "rejected tuples are recorded), geometry parameters in their documented ranges (shipped defaults half of the time), "
         "Rmax in [0.5,2], alpha_jump in [0.3,0.9]Rmax, R0/Rmax 1e-5..0.1; 24 points per case: r uniform, log-uniform "
         "towards R0, within 5% of Rmax, within 10% of the profile's steep region; theta uniform plus multiples of pi/2. "
         "8th-order central differences with three step sizes (best counts): Jacobian functions vs derivatives of (Fx,Fy) "
         "(1e-7 relative; Culham 2e-4 with a wide stencil), source term vs -(1/|det|)d_i(alpha|det|g^ij d_j u)+beta u "
         "(1e-6 of the sum of flux-term magnitudes), boundary data vs exact solution (1e-13), gyro alpha*beta=1 (8 eps). "
         "Culham: Jacobian only. Non-trivial: every case. Distinct: (tuple, bucketed shape parameters, Rmax)."
         " Third session: half of the cases first construct and evaluate an earlier object of the same classes with other parameters; one case in twelve evaluates all functions from 2-8 concurrent threads (bit-identical to sequential); Shafranov kappa = 0 / delta = 0 and alpha_jump = 0 (command-line defaults); Culham Jacobian also judged near the origin (local slopes, 3e-3).",
    technique="property-based testing (rapidcheck) over the complete selection table; oracle = high-order numerical differentiation of the mapping and of the manufactured solution",
    level_text="Every accepted selection tuple is evaluated at generated points against an oracle that recomputes the "
               "Jacobian and the strong form of the PDE for the selected exact solution by nested 8th-order finite "
               "differences in (r,theta) with the metric of the mapping; the tuple table is covered completely in every run, "
               "points and parameters are sampled. Exploration.",
    level_note="Trusted: finite-difference truncation/round-off control (three step sizes, tolerance relative to the sum of "
               "flux-term magnitudes).",
    assumptions=["input functions are smooth a few step sizes beyond the sampled point"],
)

PROPS["C01"] = dict(
    harness="c01_solve", flavour="rel", env={"VERIF_MAX_SHRINK_EVALS": "60"},
    quick=dict(workers=16, cases=640, min_nontrivial=100, budget_s=900),
    thorough=dict(workers=16, cases=16000, min_nontrivial=3000, budget_s=3300),
    rule="Full option records through the public API: all 63 smooth non-Culham triples (geometry x 7 profiles x "
         "CartesianR2/R6/PolarR6) plus the Refined problem in 10% (second half only), geometry parameters (defaults or random "
         "in range), R0/Rmax 1e-8..0.1, both boundary modes, take / give with all four cache combinations, extrapolation "
         "0/1/3 and 2 (second half only), cycles V/W/F, FMG on/off with FMG cycle and 0..3 iterations, 1..3 pre/post "
         "smoothing steps, level caps -1/2/3/4 (coarsest level <= 33 radial nodes), three norm types, rel tol 1e-6/1e-8/"
         "1e-10, abs tol off/1e-8/1e-12, 1 or 4 threads, grids nr_exp 3..6 with anisotropic factor 0..3 and divideBy2 0..2. "
         "Oracle A (every stop before the limit): the (extrapolated) residual recomputed from solution() with fresh input "
         "functions, own rhs, reference operator, own coarse grid/injection/(4r_h-r_2h)/3 combination meets the tolerance "
         "(x(1+1e-6)); initial norm from the zero vector or from a second object's FMG start. Oracle B (rate domain: "
         "finest >=17x32, extrapolation 0/1/3, not Refined): stops within 150 iterations with mean reduction factor in "
         "(0,1). Non-trivial: >=3 iterations and >=2 levels. Distinct: hash of the option record."
         " Third session: half of the records reach the object as one command line through setParameters(argc, argv); a sixth use one of five grids loaded from files (17x24, 33x48, 17x12 uniform, 25x40 geometric radii, 17x32 alternating widths; rate judged on uniform file grids without extrapolation only); verbose 0/1/2 with stdout discarded; setup() runs with the configured thread count.",
    technique="property-based testing (rapidcheck) over the solver's option space; oracle = independent recomputation of the stopping quantity plus convergence invariants",
    level_text="Generated configurations are solved through the public API; whenever solve() reports convergence the "
               "stopping quantity is recomputed from scratch by independent code (different operator implementation, own "
               "right-hand side and extrapolation), and inside the documented convergent domain the iteration must stop "
               "within the budget with a reduction factor below one. Exploration of a ~20-dimensional option space.",
    level_note="Trusted: harness/common/indep.h and refop.h (validated against the implementations by C03), the input "
               "functions (validated by C19).",
    assumptions=["coarsest level capped at 33 radial nodes for cost", "refinement radius (alpha_jump) inside the domain"],
)

PROPS["C02"] = dict(
    harness="c02_order", flavour="rel", max_inconclusive_fraction=0.08, env={"VERIF_MAX_SHRINK_EVALS": "24"},
    quick=dict(workers=16, cases=160, min_nontrivial=40, budget_s=900),
    thorough=dict(workers=16, cases=1200, min_nontrivial=300, budget_s=3300),
    rule="Triples (CartesianR2/CartesianR6/PolarR6 x Circular/Shafranov/Czarny x 7 profiles, shipped shape parameters and "
         "documented alpha_jump), both boundary modes, take / give with all cache combinations, R0/Rmax 1e-5..0.1, "
         "refinement pair divideBy2 = k -> k+1 on nr_exp=4 (finest 65x128 or 129x256 in quick, up to 257x512 in thorough). "
         "Each of the four solves (pair x extrapolation off/on) uses FMG + F-cycles to rel 1e-11 / abs 1e-13; a case whose "
         "algebraic error is not negligible (stop test missed, or API error figures and recomputed errors differ by >1e-3) "
         "or whose error is below the floor 1e-9*max|u| or unresolved (>0.1 max|u|) is inconclusive "
         "(counted). Oracle: order log2(e_k/e_k+1) >= 1.8 without and > 3.0 with implicit extrapolation in the weighted l2 "
         "and the max norm (errors recomputed from solution() with fresh ExactSolution objects), extrapolated error < plain "
         "error on the finest grid. Known finding F12 (CartesianR6, max norm, order in [2.9,3.0]) excluded and counted. "
         "Non-trivial: finest >= 65x128. Distinct: (triple, BC, strategy+caches, k, R0 decade)."
         " Third session: a third of the chains start from an anisotropic base grid (finding F22: max-norm order in [2.6,3.0] excluded and counted), interior Dirichlet radii up to 0.5 Rmax (annuli), a sixth are small two-level chains (33->65 radial nodes, l2 norm and 'extrapolated more accurate' judged); more than 8% inconclusive cases: exit 2."
         " Rounds 9/10: --Rmax from {1.3, 1.0, 2.0}; a sixth of the chains write every grid to files and load it back (load_grid_file) with the generator options, R0 included, left at their defaults.",
    technique="property-based testing (rapidcheck) with a metamorphic refinement relation: error ratios between successive uniform refinements of manufactured problems",
    level_text="For generated shipped problems the converged discrete solutions on two successive refinements are compared "
               "with the exact solution; the observed order must match the stated one in both norms, with and without "
               "extrapolation. Exploration over the triple/option space; asymptotic statements are judged on the finest "
               "pair the tier affords.",
    level_note="Trusted: exact solutions/source terms (validated by C19); thresholds 1.8 and 3.0 come from the statement; "
               "inconclusive rules (algebraic error, rounding floor, resolution) are reported in the evidence.",
    assumptions=["FMG + F-cycles to rel 1e-11 leave an algebraic error >= 3 orders below the discretisation error (checked per case)"],
)

PROPS["C20"] = dict(
    harness="c20_options", flavour="asan", env={"VERIF_MAX_SHRINK_EVALS": "100"}, extra_targets={"asan": ["gmgpolar_cli"], "rel": ["gmgpolar_cli"]},
    quick=dict(workers=16, cases=1600, min_nontrivial=300, budget_s=900),
    thorough=dict(workers=16, cases=30000, min_nontrivial=5000, budget_s=3300,
                  fuzz=dict(target="f20_options", runs=20000, jobs=8, max_len=128, budget_s=3000)),
    rule="Two parts. api (70%): the full setter cross product in-process under ASan/UBSan/assert: every enum including "
         "out-of-range integers cast into the enum type, tolerances enabled/disabled, maxIterations 0..5 or 150, smoothing "
         "steps 0..3, maxLevels -1..7, threads 1/2/5, threadReductionFactor 1..0.01, smallest grids (nr_exp 1..4, ntheta_exp "
         "-1/2/3/4, divideBy2 0..1), anisotropy with the refinement radius anywhere (also 0, negative, beyond Rmax), take "
         "with/without caches, Culham and Refined problems, grids loaded from files (coarsenable or not). Each record is run "
         "twice with the solver object placement-constructed in storage pre-filled with two different byte patterns and the "
         "stack below the calls scribbled with them: the outcome must be a std::exception both times or a completed run "
         "both times; take-without-caches and non-coarsenable grids must be rejected; 0<=iterations<=maxIterations (== "
         "with both tolerances disabled); iterations, mean reduction factor, exact errors and solution bit-identical "
         "between the two patterns (uninitialised-data detector); factor finite and equal to (r_final/r_0)^(1/its) with the "
         "last norm recomputed independently when stopped early; finite solution inside C01's domain. cli (30%): argv "
         "vectors from a grammar over all 32 registered options (valid, out-of-range, non-numeric, missing value, unknown "
         "option, --help) run as child processes of the ASan-built gmgpolar: exit 0, or a normal non-zero exit with a "
         "diagnostic on stderr; a signal (uncaught exception, assert, SEGV) or sanitizer report is a violation. "
         "Non-trivial: every api case, every cli case with arguments. Distinct: hash of the option record / argv."
         " Third session: every statistic read after every solve; grid files with 12, 24, 20 angular divisions; second run with paraview on (scratch directory), setup() writing the grid files, and a setup() that must be rejected before the real setup() or between setup() and solve(); half of the parser-acceptable records through setParameters(argc, argv); command-line grammar with --paraview, --write_grid_file, --load_grid_file and the file name options."
         " Round 10: the command-line grammar also draws lexically unusual numbers for any option (out of range for int/double, trailing characters, signs, hexadecimal, nan/inf); every command line is run a second time, uninstrumented, under valgrind memcheck (uninitialised-value errors fail).",
    technique="property-based testing (rapidcheck) under ASan/UBSan with a differential uninitialised-memory detector (two memory patterns) and a grammar-based command-line fuzzer whose command lines are also run under valgrind memcheck",
    level_text="Generated option records and command lines exercise the public API and the shipped driver under sanitizers; "
               "the clean-rejection-or-clean-run contract and the well-definedness of every reported statistic are checked "
               "per case. Exploration.",
    level_note="Trusted: ASan/UBSan/assert for memory errors; the two-pattern differential for uninitialised reads (MSan is not "
               "usable here: no instrumented libstdc++/libomp); indep.h for the recomputed norm.",
    assumptions=["exactError*() is only called after at least one pass of the iteration loop (documented use)",
                 "an out-of-range enum value passed through a cast may either be rejected or run (no UB); rejection is demanded at the command line"],
)

PROPS["C11"] = dict(
    harness="c11_races", flavour="rel", intermittent_replays=10, env={"VERIF_MAX_SHRINK_EVALS": "8"}, extra_targets={"tsan": ["c11_tsan_driver", "verif_sched"]}, parallel=4, model_guard="tools/check_omp_constructs.py",
    quick=dict(workers=8, cases=480, min_nontrivial=200, budget_s=900),
    thorough=dict(workers=4, cases=6000, min_nontrivial=2000, budget_s=3400),
    rule="(operator, shape class, thread count): operators ResidualGive/Take, SmootherGive/Take, ExtrapolatedSmootherGive/"
         "Take (two sweeps, incl. construction = matrix assembly), DirectSolverGive/TakeCustomLU (assembly + solve), "
         "LevelCache (both constructors), all transfers + FMG interpolation (half of the grids >10000 nodes, the parallel "
         "paths), vector kernels and Vector copy (n around the 10000 threshold), whole setup()+solve() with "
         "threadReductionFactor 1/0.5/0.3; shapes: number of circles 0..14 (2/3..14 for the smoothers) x radial length "
         "0/2..7 x ntheta in {4,6,8,10,12,14,16,20,24,28,32,40} (multiples of 4 for the smoothers), i.e. all residues of the "
         "circle count mod 2,3,4 and of ntheta mod 3,4 incl. minimal sizes; threads 2,3,4,5,7,8,16,33 (oversubscribed, "
         "more threads than lines). Each case runs in a child built with -fsanitize=thread under the Archer OMPT tool "
         "(banner checked), operator executed twice in parallel and once serially. Non-trivial: threads>=2. Distinct: "
         "(operator, circles mod 12, nr, ntheta, BC, threads)."
         " Third session: a fifth of the whole solves use nr_exp 8 (levels above the 10 000-node threshold, one iteration); setup() runs with the configured thread count; a line-solver operator (n up to 30000)."
         " Arrival order: in three quarters of the cases the Archer tool is wrapped by an OMPT tool of the harness that delays threads by seeded pseudo-random amounts at region begin, barrier exit and worksharing end (thread 0 most often), so that `single`, dynamic chunks and nowait successors are not always won by the encountering thread. ThreadSanitizer runs with called_from_lib suppressions for the OpenMP runtime and Archer instead of ignore_noninstrumented_modules=1, which with clang 14 hides every write made through memmove/memcpy (std::copy, std::move into a vector)."
         " Round 11: an eighth of the residual and smoother cases use a 65 x 160..176 level (above the 10000-node threshold).",
    technique="property-based testing (rapidcheck) over schedule classes (shape x thread count) with a happens-before race detector (ThreadSanitizer + Archer OMPT) as the oracle, plus parallel-vs-serial differential",
    level_text="The code uses only statically scheduled omp-for loops and barriers, so which thread touches which line and "
               "what synchronises them is a function of (operator, grid shape class, thread count); the harness generates "
               "those and a happens-before detector decides each class without depending on timing. Exploration over "
               "classes; TSan's bounded shadow history makes a clean run strong evidence, not proof.",
    level_note="Trusted: ThreadSanitizer + Archer (OpenMP happens-before; verified to report a seeded nowait race and to stay "
               "silent on the unchanged tree); the claim about static scheduling is re-checked by tools/check_omp_constructs.py.",
    assumptions=["no schedule(dynamic/guided), tasks, atomics or locks in the compiled, called code paths (checked mechanically)"],
)

PROPS["C12"] = dict(
    harness="c12_repro", flavour="rel", intermittent_replays=10, env={"VERIF_MAX_SHRINK_EVALS": "100"},
    quick=dict(workers=16, cases=6400, min_nontrivial=200, budget_s=900),
    thorough=dict(workers=8, cases=24000, min_nontrivial=3000, budget_s=3300),
    rule="Operators and shape classes as C11 (residual, smoothers, direct solvers, level caches, transfers below and above "
         "10000 nodes, vector kernels with n in {0,1,7,9999,10000,10001,30000}, setup()+solve() with a fixed number of cycles "
         "and thread reduction factors) in the project's own build flavour (g++/libgomp); thread counts t1,t2 from "
         "{1,2,3,4,5,8,16,32} (more threads than lines or cores). Each case runs three times with t1 threads (bitwise "
         "equality demanded, except scalar reductions and solves with >2 threads) and once with t2 threads (difference <= "
         "1e-11 relative for matrix-free operators, 1e-8 for line/direct solves, 1e-6 for solves); kernels are compared with "
         "a long double reference within (n+4)*eps*sum|terms| and element-wise kernels bitwise with the step-by-step "
         "definition. Non-trivial: some thread count >= 2. Distinct: (operator, thread counts, shape/size)."
         " Third session: whole solves with nr_exp 7/8, through setParameters(argc, argv), with file grids; a sixth of the cases call the operator from inside an enclosing parallel region; transfer results must be bit-identical across thread counts; line-solver operator; a campaign failure counts when the saved case fails again in 2 of up to 10 replays. In a third of the cases the second and third of the repeated runs are confined to one and to two processors (all threads of the process), which changes arrival order at blocking points.",
    technique="property-based testing (rapidcheck); metamorphic relations (repeat run, change thread count) and a long double reference for the kernels",
    level_text="Generated operator/shape/thread-count cases are executed repeatedly and with different thread counts; outputs "
               "must be bit-identical run to run and equal up to re-association across thread counts; the vector kernels "
               "are compared with their mathematical definition on both sides of the 10000-element threshold. Run-to-run "
               "reproducibility can only be sampled.",
    level_note="Trusted: the tolerance classes (observed maxima in the evidence). OpenMP does not promise bitwise reproducible "
               "reductions, so scalar kernel results are compared with a rounding bound, not bitwise.",
    assumptions=["bitwise run-to-run equality is demanded of vector outputs, not of parallel scalar reductions"],
)
