// FLAVOURS: rel asan
// C01: solve() converges, and a reported convergence is true.
//   SolverCfg (full option record)
#include "engine.h"
#include "indep.h"

static Outcome runCase(const KV& c)
{
    Outcome o;
    StdoutSilencer quiet(c.getI("verbose", 0) > 0);
    SolverCfg cfg = SolverCfg::get(c);
    std::unique_ptr<GMGPolar> s = cfg.make();
    try {
        s->setup();
    }
    catch (const std::exception& e) {
        o.cls("rejected_by_exception");
        return o;
    }
    s->solve();
    const PolarGrid& g = s->grid();
    const int its      = s->numberOfIterations();
    const int nl       = GMGPolarVerifAccess::numberOfLevels(*s);
    const bool tolOn   = cfg.abs_tol > 0 || cfg.rel_tol > 0;
    // grids from files (non-power-of-two angular divisions, non-uniform spacing): the truth of a reported stop is judged as
    // always; the convergence-rate statement is judged on uniform file grids without extrapolation only (implicit
    // extrapolation presupposes the midpoint hierarchy the parametric constructor builds)
    const bool fileGridOutsideRateDomain = cfg.grid_kind >= 4 || (cfg.grid_kind > 0 && cfg.extrapolation != 0);
    if (cfg.grid_kind > 0)
        o.cls("grid_from_files_kind_" + std::to_string(cfg.grid_kind));
    const bool rateDomain = g.nr() >= 17 && g.ntheta() >= 24 && cfg.pre >= 1 && cfg.post >= 1 && cfg.extrapolation != 2 && cfg.problem != 3 &&
                            !fileGridOutsideRateDomain && (cfg.grid_kind > 0 || g.ntheta() >= 32);
    o.signature  = cfg.sig();
    o.nontrivial = its >= 3 && nl >= 2;
    o.cls("extrapolation_" + std::to_string(cfg.extrapolation));
    o.cls("cycle_" + std::to_string(cfg.cycle));
    o.cls(cfg.fmg ? "fmg_on" : "fmg_off");
    o.cls(cfg.dirbc ? "dirbc" : "across_origin");
    o.cls(cfg.strategy ? "give" : "take");
    o.cls("norm_" + std::to_string(cfg.norm));
    o.cls("levels_" + std::to_string(std::min(nl, 7)));
    if (cfg.aniso > 0)
        o.cls("anisotropic");
    if (cfg.problem == 3)
        o.cls("refined_problem");
    if (rateDomain)
        o.cls("in_rate_domain");
    const Vector<double>& u = s->solution();
    for (int i = 0; i < u.size(); i++)
        if (!std::isfinite(u[i])) {
            o.fail("finite", "solution is not finite");
            return o;
        }
    if (!tolOn)
        return o;
    // Oracle B: it converges within the budget, with a mean reduction factor strictly below one
    if (rateDomain && cfg.max_its >= 150) {
        if (its >= cfg.max_its) {
            // floor guard: a tolerance below the rounding level eps*|| |A||u| || of the discrete system cannot be met in
            // double precision (FMG start + rel 1e-10, R0=1e-8 ...): such a request is inconclusive, not a divergence
            IndepProblem ip(cfg);
            RefOp A(g, *ip.geo, *ip.co, ip.dirbc);
            std::vector<LD> Au, mag;
            A.apply(u, Au, mag);
            const LD floorN = 1e3L * 2.2e-16L * IndepProblem::norm(mag, cfg.norm);
            const auto& rn  = GMGPolarVerifAccess::residualNorms(*s);
            const LD target = std::max<LD>(cfg.abs_tol > 0 ? cfg.abs_tol : 0, cfg.rel_tol > 0 && !rn.empty() ? cfg.rel_tol * rn.front() : 0);
            if (target < floorN) {
                o.inconclusive = true;
                o.cls("tolerance_below_rounding_floor");
                return o;
            }
            // distinguish divergence/stagnation from slow but steady convergence
            const double meanRho = rn.size() >= 2 && rn.front() > 0 ? std::pow(rn.back() / rn.front(), 1.0 / (rn.size() - 1)) : 1.0;
            char buf[240];
            snprintf(buf, sizeof buf, "no convergence within %d iterations (%dx%d, %d levels): residual %.3e -> %.3e, mean reduction factor %.4f",
                     cfg.max_its, g.nr(), g.ntheta(), nl, rn.empty() ? 0.0 : rn.front(), rn.empty() ? 0.0 : rn.back(), meanRho);
            if (!(meanRho < 0.999)) {
                o.fail("no_convergence", buf);
                return o;
            }
            // known finding F16 (slow convergence on a specific family of configurations) is excluded by construction
            const bool f16 = cfg.geometry == 1 && cfg.alpha >= 2 && cfg.dirbc == 1 && cfg.aniso >= 1 && cfg.R0 >= 0.05 * cfg.Rmax;
            if (const char* lg = getenv("VERIF_C01_LOG_SLOW")) {
                FILE* f = fopen(lg, "a");
                if (f) {
                    fprintf(f, "SLOW rho=%.4f %s\n", meanRho, c.pretty(2000).c_str());
                    fclose(f);
                }
                o.cls("slow_logged");
                return o;
            }
            if (f16 && !c.getI("include_known", 0)) {
                o.cnt("excluded_known_F16");
                return o;
            }
            o.fail("slow_convergence", buf);
            return o;
        }
        if (its > 0) {
            const double rho = s->meanResidualReductionFactor();
            o.mx("mean_reduction_factor", rho);
            o.mx("iterations", its);
            if (!(std::isfinite(rho) && rho > 0 && rho < 1)) {
                char buf[160];
                snprintf(buf, sizeof buf, "mean residual reduction factor %.6g is not in (0,1) after %d iterations", rho, its);
                o.fail("reduction_factor", buf);
                return o;
            }
        }
    }
    // Oracle A: a reported stop is true for the independently recomputed (extrapolated) residual
    if (its < cfg.max_its) {
        IndepProblem ip(cfg);
        const bool ex = cfg.extrapolation != 0;
        const LD nrm  = IndepProblem::norm(ip.stopResidual(g, u, ex), cfg.norm);
        LD nrm0;
        if (!cfg.fmg) {
            Vector<double> zero(u.size());
            for (int i = 0; i < zero.size(); i++)
                zero[i] = 0.0;
            nrm0 = IndepProblem::norm(ip.stopResidual(g, zero, ex), cfg.norm);
        }
        else {
            // the starting approximation is a function of the problem data only (C09): recompute it with a second object
            SolverCfg sc = cfg;
            sc.max_its   = 0;
            std::unique_ptr<GMGPolar> st = sc.make();
            st->setup();
            st->solve();
            nrm0 = IndepProblem::norm(ip.stopResidual(g, st->solution(), ex), cfg.norm);
        }
        // two evaluations of a residual agree only up to the rounding level eps*|| |A||u| || of the operator application
        LD floorN;
        {
            RefOp A(g, *ip.geo, *ip.co, ip.dirbc);
            std::vector<LD> Au, mag;
            A.apply(u, Au, mag);
            floorN = 1e3L * 2.2e-16L * IndepProblem::norm(mag, cfg.norm);
        }
        // the norm the solver itself based its decision on (read through the friend hook) is the recomputed one:
        // a stop test fed with a differently scaled residual (e.g. a wrong 4/3 factor) fails here even when the iterate
        // happens to satisfy the tolerance anyway
        {
            const auto& rn = GMGPolarVerifAccess::residualNorms(*s);
            if (!rn.empty() && (int)rn.size() == its + 1) {
                const LD own = rn.back();
                o.cls("solver_norm_compared");
                if (fabsl(own - nrm) > 1e-6L * nrm + floorN) {
                    char buf[240];
                    snprintf(buf, sizeof buf, "the %sresidual norm the stop test used is %.12Lg, independently recomputed from solution(): %.12Lg", ex ? "extrapolated " : "",
                             own, nrm);
                    o.fail("stop_quantity_mismatch", buf);
                    return o;
                }
            }
        }
        const bool absOk = cfg.abs_tol > 0 && nrm <= (LD)cfg.abs_tol * (1 + 1e-6L) + floorN;
        const bool relOk = cfg.rel_tol > 0 && nrm <= (LD)cfg.rel_tol * nrm0 * (1 + 1e-6L) + floorN;
        o.cls("stop_verified");
        if (relOk && nrm0 > 0)
            o.mx("rel_residual_over_tol", (double)(nrm / nrm0 / cfg.rel_tol));
        if (!absOk && !relOk) {
            char buf[300];
            snprintf(buf, sizeof buf, "solve() stopped after %d < %d iterations but the independently recomputed %sresidual norm is %.6Le (initial %.6Le, ratio %.3Le); tolerances abs %.3g rel %.3g",
                     its, cfg.max_its, ex ? "extrapolated " : "", nrm, nrm0, nrm / nrm0, cfg.abs_tol, cfg.rel_tol);
            o.fail("reported_stop_false", buf);
            return o;
        }
    }
    return o;
}

static KV genCase()
{
    KV c;
    SolverCfg s;
    s.geometry = rint(0, 2);
    s.problem  = rint(0, 9) == 0 ? 3 : rint(0, 2);
    if (s.problem == 3) {
        s.alpha = 3;
        s.beta  = 1;
    }
    else {
        s.alpha = rint(0, 3);
        s.beta  = rint(0, 1);
    }
    genGeometryParams(s);
    s.R0            = s.Rmax * rpick({1e-8, 1e-5, 1e-5, 1e-3, 1e-2, 0.1});
    s.dirbc         = rbool();
    s.strategy      = rint(0, 1);
    if (s.strategy == 1) {
        s.cache_coef = rbool();
        s.cache_geom = rbool();
    }
    s.extrapolation = rweighted({3, 3, 1, 3});
    s.cycle         = rint(0, 2);
    s.fmg           = rbool();
    s.fmg_cycle     = rint(0, 2);
    s.fmg_its       = rint(0, 3);
    s.pre           = rint(1, 3);
    s.post          = rint(1, 3);
    s.norm          = rint(0, 2);
    s.rel_tol       = rpick({1e-6, 1e-8, 1e-10});
    s.abs_tol       = rpick({-1.0, 1e-8, 1e-12});
    s.threads       = rpick({1, 4});
    s.max_its       = 150;
    // grid: nr_exp 3..6, anisotropy 0..3 (refinement radius = alpha_jump inside the domain), divideBy2 0..2
    s.nr_exp = rweighted({2, 4, 4, 2}) + 3;
    s.div    = rweighted({5, 3, 1});
    {
        const char* t  = getenv("VERIF_TIER");
        const int maxe = (t && std::string(t) == "thorough") ? 7 : (rint(0, 9) == 0 ? 6 : 5);
        while (s.nr_exp + s.div > maxe)
            s.div--;
    }
    s.aniso = rweighted({6, 2, 1, 1});
    if (s.aniso >= s.nr_exp)
        s.aniso = 0;
    s.ntheta_exp = -1;
    // level cap, keeping the coarsest level at or below 33 radial nodes (the in-house LU has no fill-reducing ordering)
    s.max_levels  = rpick({-1, -1, 2, 3, 4});
    const int tot = s.nr_exp + s.div; // finest has about 2^tot + 1 radial nodes
    if (s.max_levels > 0 && tot - (s.max_levels - 1) > 5)
        s.max_levels = tot - 4;
    s.via_cli = rint(0, 1);
    s.verbose = rweighted({4, 1, 1}); // a diagnostic option: must not change what is computed
    if (rint(0, 5) == 0) {
        // a grid loaded from files; the parametric options are then irrelevant
        s.grid_kind = rint(1, 5);
        s.aniso     = 0;
        s.div       = 0;
        if (s.max_levels > 3)
            s.max_levels = -1;
    }
    s.put(c);
    return c;
}

int main(int argc, char** argv)
{
    return harnessMain(argc, argv, "C01 solve converges", genCase, runCase);
}
