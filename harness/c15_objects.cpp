// FLAVOURS: rel asan
// LIBS: none
// C15: copies and moves of linear-algebra objects behave like the original (model-based, stateful).
#include "engine.h"
#include "objects_case.h"

int main(int argc, char** argv)
{
    return harnessMain(argc, argv, "C15 value semantics", genObjectsCase, runObjectsCase);
}
