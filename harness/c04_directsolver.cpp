// FLAVOURS: rel asan
// C04: the coarse-grid direct solve inverts exactly the operator the residual applies.
//   ProblemSpec + threads, nrhs, f_kind, f_seed
#include "engine.h"
#include "problem.h"
#include "refop.h"
#include "DirectSolver/DirectSolverGiveCustomLU/directSolverGiveCustomLU.h"
#include "DirectSolver/DirectSolverTakeCustomLU/directSolverTakeCustomLU.h"

static const double EPS = 2.220446049250313e-16;
static const double CBND = 2.0;

static Outcome runOnce(const KV& c)
{
    Outcome o;
    ProblemSpec p     = ProblemSpec::get(c);
    const int threads = (int)c.getI("threads");
    const int nrhs    = (int)c.getI("nrhs");
    const int fscale  = (int)c.getI("f_scale_exp", 0);
    if (fscale != 0)
        o.cls(fscale < 0 ? "rhs_scaled_tiny" : "rhs_scaled_huge");
    const int fkind   = (int)c.getI("f_kind");
    const uint64_t fseed = c.getU("f_seed");
    Hierarchy H;
    H.build(p, true, true, 0);
    Hierarchy Hu;
    Hu.build(p, c.getI("cache_coef", 0) != 0, c.getI("cache_geom", 0) != 0, 0);
    const PolarGrid& g = H.levels[0]->grid();
    const int n = g.numberOfNodes(), nr = g.nr(), nt = g.ntheta();
    RefOp ref(g, *H.geometry, *H.coefficients, p.dirbc);
    for (auto d : ref.det)
        if (!(fabsl(d) > 0)) {
            o.cls("discarded_degenerate_mapping");
            return o;
        }
    o.nontrivial = n >= 40 && (p.geom != 0 || !p.uniformGrid());
    o.signature  = p.sig() + "c" + std::to_string(g.numberSmootherCircles()) + "t" + std::to_string(threads) + "f" +
                  std::to_string(fkind);
    o.cls(std::string("geom_") + kGeomNames[p.geom]);
    o.cls(p.dirbc ? "dirbc" : "across_origin");
    if (threads > 1)
        o.cls("parallel_assembly");
    if (n > 1000)
        o.cls("nodes_gt_1000");
    if (nr == 5 || nt == 4)
        o.cls("smallest_hierarchy_size");
    if (fkind == 4)
        o.cls("rhs_huge_dynamic_range");

    // row 1-norms of A (row-scaled normwise bound is invariant under row scaling of the system)
    std::vector<LD> rowNorm(n, 0);
    {
        std::vector<RefOp::Entry> e;
        for (int i = 0; i < nr; i++)
            for (int j = 0; j < nt; j++) {
                ref.row(i, j, e);
                LD s = 0;
                for (auto& q : e)
                    s += fabsl(q.v);
                rowNorm[g.index(i, j)] = s;
            }
    }
    // known finding F15 analogue for the assembly is excluded by construction (counted): see DESIGN.md
    int thr = threads;
    if (threads > 1 && !p.dirbc && g.numberSmootherCircles() == 0 && !c.getI("include_known", 0) && !getenv("VERIF_INCLUDE_KNOWN")) {
        thr = 1;
        o.cnt("excluded_known_F15");
    }
    // short_team: the solvers are constructed (= assembled and factorised) from inside an enclosing parallel region; with
    // nested parallelism off (the default) their own regions then run with a team of one although several threads were
    // requested - OpenMP never promises the requested team size
    std::unique_ptr<DirectSolverGiveCustomLU> giveP;
    std::unique_ptr<DirectSolverTakeCustomLU> takeP;
    auto construct = [&] {
        giveP = std::make_unique<DirectSolverGiveCustomLU>(Hu.levels[0]->grid(), Hu.levels[0]->levelCache(), *Hu.geometry, *Hu.coefficients,
                                                           p.dirbc, thr);
        takeP = std::make_unique<DirectSolverTakeCustomLU>(g, H.levels[0]->levelCache(), *H.geometry, *H.coefficients, p.dirbc, threads);
    };
    if (c.getI("short_team", 0) && threads > 1) {
        o.cls("constructed_with_a_short_team");
#pragma omp parallel num_threads(2)
        {
#pragma omp single
            construct();
        }
    }
    else
        construct();
    DirectSolverGiveCustomLU& give = *giveP;
    DirectSolverTakeCustomLU& take = *takeP;
    ResidualGive rGive(g, H.levels[0]->levelCache(), *H.geometry, *H.coefficients, p.dirbc, 1);
    ResidualTake rTake(g, H.levels[0]->levelCache(), *H.geometry, *H.coefficients, p.dirbc, 1);

    for (int k = 0; k < nrhs; k++) {
        Vector<double> f = makeVector(g, fkind, fseed + 17 * k);
        // "for any right-hand side": the whole vector may also be tiny or huge (exact scaling by a power of two; the solve
        // is linear, all bounds below are relative to the data)
        if (fscale != 0)
            for (int i = 0; i < n; i++)
                f[i] = std::ldexp(f[i], fscale);
        Vector<double> xg = f, xt = f;
        give.solveInPlace(xg);
        take.solveInPlace(xt);
        LD xgn = 0, xtn = 0;
        for (int i = 0; i < n; i++) {
            if (!std::isfinite(xg[i]) || !std::isfinite(xt[i])) {
                o.fail("finite", "direct solve returned a non-finite entry");
                return o;
            }
            xgn = std::max(xgn, fabsl((LD)xg[i]));
            xtn = std::max(xtn, fabsl((LD)xt[i]));
        }
        // residual of each strategy's solution measured by the *other* strategy's residual and by A_ref
        Vector<double> r1(n), r2(n);
        rTake.computeResidual(r1, f, xg);
        rGive.computeResidual(r2, f, xt);
        std::vector<LD> Axg, Axt, m1, m2;
        ref.apply(xg, Axg, m1);
        ref.apply(xt, Axt, m2);
        for (int i = 0; i < n; i++) {
            const LD bg = CBND * n * EPS * (rowNorm[i] * xgn + fabsl((LD)f[i]));
            const LD bt = CBND * n * EPS * (rowNorm[i] * xtn + fabsl((LD)f[i]));
            const LD rg_ref = fabsl((LD)f[i] - Axg[i]), rt_ref = fabsl((LD)f[i] - Axt[i]);
            if (bg > 0) {
                o.mx("give_residual_over_bound", (double)(rg_ref / bg));
                o.mx("take_residual_over_bound", (double)(rt_ref / bt));
            }
            int ir, it;
            g.multiIndex(i, ir, it);
            char buf[300];
            if (rg_ref > bg || fabsl((LD)r1[i]) > 2 * bg) {
                snprintf(buf, sizeof buf, "give solve, rhs #%d: residual at node (%d,%d) is %.3Le (take residual %.3e), bound %.3Le", k,
                         ir, it, rg_ref, r1[i], bg);
                o.fail("residual_of_give_solve", buf);
                return o;
            }
            if (rt_ref > bt || fabsl((LD)r2[i]) > 2 * bt) {
                snprintf(buf, sizeof buf, "take solve, rhs #%d: residual at node (%d,%d) is %.3Le (give residual %.3e), bound %.3Le", k,
                         ir, it, rt_ref, r2[i], bt);
                o.fail("residual_of_take_solve", buf);
                return o;
            }
            // both strategies return the same solution: A (x_give - x_take) = 0 up to the same bound
            const LD d = fabsl(Axg[i] - Axt[i]);
            if (d > 2 * (bg + bt)) {
                snprintf(buf, sizeof buf, "rhs #%d: A(x_give-x_take) at node (%d,%d) is %.3Le, bound %.3Le", k, ir, it, d, 2 * (bg + bt));
                o.fail("give_take_agree", buf);
                return o;
            }
        }
    }
    // The same through the Level interface the solver itself uses (initializeDirectSolver / directSolveInPlace /
    // initializeResidual / computeResidual), on a Level object that has ALREADY been initialised for the other boundary
    // mode: re-initialising a level replaces its operators (take strategy: both caches on).
    if (c.getI("via_level", 0)) {
        o.cls("via_level_reinitialised");
        Level& L = *H.levels[0];
        const auto method = StencilDistributionMethod::CPU_TAKE;
        L.initializeDirectSolver(*H.geometry, *H.coefficients, !p.dirbc, 1, method);
        L.initializeResidual(*H.geometry, *H.coefficients, !p.dirbc, 1, method);
        L.initializeDirectSolver(*H.geometry, *H.coefficients, p.dirbc, 1, method);
        L.initializeResidual(*H.geometry, *H.coefficients, p.dirbc, 1, method);
        Vector<double> f = makeVector(g, fkind, fseed + 99);
        if (fscale != 0)
            for (int i = 0; i < n; i++)
                f[i] = std::ldexp(f[i], fscale);
        Vector<double> x = f, r(n);
        L.directSolveInPlace(x);
        L.computeResidual(r, f, x);
        LD xn = 0;
        for (int i = 0; i < n; i++)
            xn = std::max(xn, fabsl((LD)x[i]));
        for (int i = 0; i < n; i++) {
            const LD b = 2 * CBND * n * EPS * (rowNorm[i] * xn + fabsl((LD)f[i]));
            if (!(fabsl((LD)r[i]) <= b)) {
                int ir, it;
                g.multiIndex(i, ir, it);
                char buf[300];
                snprintf(buf, sizeof buf, "Level re-initialised for the %s boundary mode: residual of directSolveInPlace at node (%d,%d) is %.3e, bound %.3Le",
                         p.dirbc ? "Dirichlet" : "across-origin", ir, it, r[i], b);
                o.fail("level_reinitialised", buf);
                return o;
            }
        }
    }
    return o;
}

// the regression case of the (timing dependent) assembly race repeats construction + solve
static Outcome runCase(const KV& c)
{
    Outcome o = runOnce(c);
    for (int rep = 0; o.ok && rep < (int)c.getI("repeat", 0); rep++)
        o = runOnce(c);
    return o;
}

static KV genCase()
{
    KV c;
    GridOpts go;
    go.nr_min = 5;
    go.nr_max = 33;
    go.nt_min = 4;
    go.nt_max = 40;
    go.allow_explicit_split = true;
    ProblemSpec p = genProblem(go);
    // occasionally the largest size of the tier
    if (rint(0, 49) == 0) {
        GridOpts big = go;
        big.nr_min = 41;
        big.nr_max = 49;
        big.nt_min = 48;
        big.nt_max = 64;
        p = genProblem(big);
    }
    p.put(c);
    c.putI("threads", rpick({1, 2, 3, 5, 16}));
    c.putI("cache_coef", rbool());
    c.putI("cache_geom", rbool());
    c.putI("nrhs", rint(1, 3));
    c.putI("via_level", rweighted({3, 1}));
    c.putI("short_team", rweighted({4, 1}));
    c.putI("f_scale_exp", rpick({0, 0, 0, 0, 0, 0, -600, -300, 300, 600}));
    c.putI("f_kind", rweighted({4, 3, 2, 2, 3, 1}));
    c.putU("f_seed", rseed());
    return c;
}

int main(int argc, char** argv)
{
    return harnessMain(argc, argv, "C04 direct solver", genCase, runCase);
}
