// FLAVOURS: rel
// C11: no data race in any parallel region, for any thread count or schedule.
//   op + operator case (see common/c11_ops.h) + threads
// Oracle: the case is executed by the ThreadSanitizer build (c11_tsan_driver) under the Archer OMPT tool, which supplies
// OpenMP happens-before; all active parallel regions use statically scheduled `omp for` loops and barriers only, so the
// iteration->thread map and the synchronisation are a function of (shape, thread count): the generated input is the
// schedule class. Zero ThreadSanitizer reports and parallel == serial result are required.
#include "c11_ops.h"
#include <fstream>
#include <sys/wait.h>
#include <fcntl.h>

static std::string tmpBase()
{
    const char* t = getenv("TMPDIR");
    return std::string(t ? t : "/tmp") + "/verif_c11_" + std::to_string((long)getpid());
}

static Outcome runCase(const KV& c)
{
    Outcome o;
    const int op = (int)c.getI("op"), threads = (int)c.getI("threads");
    o.cls(std::string("op_") + kOpNames11[op]);
    o.cls("threads_" + std::to_string(threads));
    // shape class signature
    std::string shape;
    if (c.has("radii")) {
        ProblemSpec p = ProblemSpec::get(c);
        auto g        = p.makeGrid();
        shape = "c" + std::to_string(g->numberSmootherCircles() % 12) + "r" + std::to_string(g->nr()) + "t" + std::to_string(g->ntheta()) +
                (p.dirbc ? "D" : "O");
        o.cls("circles_mod3_" + std::to_string(g->numberSmootherCircles() % 3));
        o.cls("ntheta_mod3_" + std::to_string(g->ntheta() % 3));
        // known finding F15: parallel give (residual / solver assembly) with an empty circle section and across-origin closure
        if ((op == OP11_RES_GIVE || op == OP11_DS_GIVE) && !p.dirbc && g->numberSmootherCircles() == 0 && !c.getI("include_known", 0)) {
            o.cnt("excluded_known_F15");
            return o;
        }
    }
    o.signature  = std::string(kOpNames11[op]) + shape + "T" + std::to_string(threads) + c.getS("kernel_n", "") + c.getS("s_extrapolation", "");
    o.nontrivial = threads >= 2;
    const char* root      = getenv("VERIF_BUILD_TSAN");
    const std::string exe = std::string(root ? root : "/verif/build/tsan") + "/c11_tsan_driver";
    const std::string schedLib = std::string(root ? root : "/verif/build/tsan") + "/libverif_sched.so";
    const std::string supp     = std::string(root ? root : "/verif/build/tsan") + "/tsan_suppressions.txt";
    const uint64_t sched_seed  = c.has("sched_seed") ? c.getU("sched_seed") : 0;
    o.cls(sched_seed ? "arrival_order_perturbed" : "arrival_order_unperturbed");
    const std::string cf = tmpBase() + ".case", lf = tmpBase() + ".log";
    c.save(cf);
    fflush(nullptr);
    pid_t pid = fork();
    if (pid == 0) {
        int fd = open(lf.c_str(), O_WRONLY | O_CREAT | O_TRUNC, 0600);
        if (fd >= 0) {
            dup2(fd, 1);
            dup2(fd, 2);
        }
        // Archer, wrapped by the arrival-order perturbation tool (sched_tool.cpp); sched_seed=0: no perturbation
        setenv("OMP_TOOL_LIBRARIES", schedLib.c_str(), 1);
        setenv("VERIF_SCHED_SEED", std::to_string(sched_seed).c_str(), 1);
        setenv("ARCHER_OPTIONS", "verbose=1", 1);
        setenv("TSAN_OPTIONS", ("suppressions=" + supp + ":halt_on_error=0:exitcode=66:report_signal_unsafe=0").c_str(), 1);
        setenv("OMP_WAIT_POLICY", "PASSIVE", 1);
        setenv("KMP_BLOCKTIME", "0", 1);
        unsetenv("OMP_NUM_THREADS");
        alarm(600);
        std::string t = std::to_string(threads);
        execl(exe.c_str(), exe.c_str(), cf.c_str(), t.c_str(), (char*)nullptr);
        _exit(127);
    }
    int status = 0;
    waitpid(pid, &status, 0);
    std::string log;
    {
        std::ifstream f(lf);
        log.assign((std::istreambuf_iterator<char>(f)), std::istreambuf_iterator<char>());
    }
    std::remove(cf.c_str());
    std::remove(lf.c_str());
    if (WIFEXITED(status) && WEXITSTATUS(status) == 127) {
        o.fail("harness_exec", "could not execute " + exe);
        return o;
    }
    if (WIFSIGNALED(status) && WTERMSIG(status) == SIGALRM) {
        o.inconclusive = true;
        o.cls("tsan_timeout");
        return o;
    }
    if (log.find("Archer detected OpenMP application with TSan") == std::string::npos) {
        o.fail("harness_archer_missing", "the Archer OMPT tool did not attach (no OpenMP happens-before): " + log.substr(0, 300));
        return o;
    }
    if (log.find("verif_sched: wrapping Archer") == std::string::npos) {
        o.fail("harness_sched_tool_missing", "the arrival-order tool did not attach: " + log.substr(0, 300));
        return o;
    }
    size_t w = log.find("WARNING: ThreadSanitizer");
    if (w != std::string::npos) {
        // first report, shortened
        std::string rep = log.substr(w, 1400);
        o.fail("data_race", std::string(kOpNames11[op]) + " with " + std::to_string(threads) + " threads (" + shape + "): " + rep);
        return o;
    }
    if (!WIFEXITED(status) || WEXITSTATUS(status) != 0) {
        o.fail("tsan_child_failed", "the ThreadSanitizer child terminated abnormally: " + log.substr(log.size() > 600 ? log.size() - 600 : 0));
        return o;
    }
    size_t rpos = log.find("RESULT ");
    if (rpos == std::string::npos) {
        o.fail("tsan_child_failed", "no result line from the child");
        return o;
    }
    if (log.find("RESULT exception=") != std::string::npos) {
        o.cls("rejected_by_exception");
        return o;
    }
    int sizeOk = 0;
    size_t n   = 0;
    double scale = 0, d1 = 0, d2 = 0;
    sscanf(log.c_str() + rpos, "RESULT size_ok=%d n=%zu scale=%lf par_vs_serial=%lf run_vs_run=%lf", &sizeOk, &n, &scale, &d1, &d2);
    if (!sizeOk) {
        o.fail("parallel_vs_serial", "parallel and serial outputs have different sizes");
        return o;
    }
    // give-type operators accumulate in a thread-count dependent order; line and direct solves amplify that re-association by
    // their condition number, which grows with the grid: 1e-6 on the levels above 10000 nodes (observed 3e-8 on the unchanged
    // tree), 1e-8 on the small shape classes (observed < 1e-11). Schedule defects show up as 1e-3 and more.
    const bool large = c.getS("size_class", "") == "above_10000_nodes";
    if (large)
        o.cls("operator_level_above_10000_nodes");
    const double tol = ((op == OP11_SOLVE || large) ? 1e-6 : 1e-8) * (scale + 1e-300);
    o.mx("par_vs_serial_rel", scale > 0 ? d1 / scale : d1);
    if (d1 > tol) {
        char buf[200];
        snprintf(buf, sizeof buf, "%s: %d-thread result differs from the serial result by %.3e (scale %.3e)", kOpNames11[op], threads, d1, scale);
        o.fail("parallel_vs_serial", buf);
        return o;
    }
    return o;
}

static KV genCase()
{
    KV c = genCase11(true);
    c.putI("threads", rpick({2, 3, 4, 5, 7, 8, 16, 33}));
    // three quarters of the cases with perturbed arrival order (who wins a `single`, a dynamic chunk, a nowait successor)
    c.putU("sched_seed", rint(0, 3) == 0 ? 0 : (rseed() | 1));
    return c;
}

int main(int argc, char** argv)
{
    return harnessMain(argc, argv, "C11 data races", genCase, runCase);
}
