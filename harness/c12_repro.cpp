// FLAVOURS: rel asan
// C12: results are reproducible and do not depend on the thread count; vector kernels equal their definition.
//   op + operator case (common/c11_ops.h) + t1, t2 (thread counts)
#include "c11_ops.h"
#include "dense.h"

#include <dirent.h>
#include <sched.h>
#include <unistd.h>

static const double EPS = 2.220446049250313e-16;

// Schedule diversity for the repeated runs: confine every thread of this process (the OpenMP pool included) to `ncpu`
// processors (0 = all again). On one processor the woken workers and the encountering thread interleave only at blocking
// points and wake-up preemptions, which changes who arrives first at a `single`, a dynamic chunk or a nowait successor;
// "reproducible" in the property has no "on an idle many-core machine" qualifier.
static void confineThreads(int ncpu, unsigned salt)
{
    static cpu_set_t all;
    static bool have = false;
    if (!have) {
        sched_getaffinity(0, sizeof all, &all);
        have = true;
    }
    cpu_set_t set;
    if (ncpu <= 0)
        set = all;
    else {
        std::vector<int> cpus;
        for (int i = 0; i < CPU_SETSIZE; i++)
            if (CPU_ISSET(i, &all))
                cpus.push_back(i);
        CPU_ZERO(&set);
        for (int k = 0; k < ncpu && !cpus.empty(); k++)
            CPU_SET(cpus[(salt + (unsigned)k) % cpus.size()], &set);
    }
    if (DIR* d = opendir("/proc/self/task")) {
        while (dirent* e = readdir(d)) {
            const int tid = atoi(e->d_name);
            if (tid > 0)
                sched_setaffinity(tid, sizeof set, &set);
        }
        closedir(d);
    }
}

static Outcome runCase(const KV& c)
{
    Outcome o;
    const int op = (int)c.getI("op"), t1 = (int)c.getI("t1"), t2 = (int)c.getI("t2");
    o.cls(std::string("op_") + kOpNames11[op]);
    o.cls("threads_" + std::to_string(t1));
    o.signature  = std::string(kOpNames11[op]) + "T" + std::to_string(t1) + "/" + std::to_string(t2) + c.getS("kernel_n", "") + c.getS("s_extrapolation", "") +
                  c.getS("s_nr_exp", "");
    if (c.has("radii")) {
        ProblemSpec p = ProblemSpec::get(c);
        auto g        = p.makeGrid();
        o.signature += "c" + std::to_string(g->numberSmootherCircles()) + "r" + std::to_string(g->nr()) + "t" + std::to_string(g->ntheta());
        if ((op == OP11_RES_GIVE || op == OP11_DS_GIVE) && !p.dirbc && g->numberSmootherCircles() == 0 && (t1 > 1 || t2 > 1)) {
            o.cnt("excluded_known_F15");
            return o;
        }
        if (g->numberOfNodes() > 10000)
            o.cls("nodes_gt_10000");
    }
    o.nontrivial = t1 >= 2 || t2 >= 2;
    std::vector<double> a1, a2, a3, b;
    try {
        const int confine = (int)c.getI("confine", 0);
        a1 = runOp11(c, t1);
        if (confine) {
            // second run on one processor, third on two (threads created during these runs inherit the restriction)
            o.cls("repeated_runs_on_1_and_2_processors");
            confineThreads(1, (unsigned)c.getU("x_seed"));
        }
        a2 = runOp11(c, t1);
        if (confine)
            confineThreads(2, (unsigned)c.getU("x_seed"));
        a3 = runOp11(c, t1);
        if (confine)
            confineThreads(0, 0);
        b = runOp11(c, t2);
    }
    catch (const std::exception&) {
        confineThreads(0, 0);
        o.cls("rejected_by_exception");
        return o;
    }
    // (i) fixed thread count: bit-for-bit reproducible
    // Reductions (dot product, norms) are not required to be bitwise reproducible across runs by OpenMP; the kernels'
    // scalar results are therefore compared with a tolerance, everything else bitwise.
    const size_t nscalar = op == OP11_KERNELS ? 4 : 0;
    if (a1.size() != a2.size() || a1.size() != a3.size() || a1.size() != b.size()) {
        o.fail("sizes", "output sizes differ between runs");
        return o;
    }
    double scale = 0;
    for (double v : a1)
        scale = std::max(scale, std::fabs(v));
    const bool solve = op == OP11_SOLVE;
    for (size_t i = nscalar; i < a1.size(); i++) {
        if (solve && t1 > 2)
            break; // residual norms drive the stop test through a >2-term reduction: bitwise equality is not promised
        if (std::memcmp(&a1[i], &a2[i], 8) != 0 || std::memcmp(&a1[i], &a3[i], 8) != 0) {
            char buf[200];
            snprintf(buf, sizeof buf, "%s with %d threads: output entry %zu differs between repeated runs (%.17g vs %.17g / %.17g)", kOpNames11[op], t1, i,
                     a1[i], a2[i], a3[i]);
            o.fail("run_to_run", buf);
            return o;
        }
    }
    // (ii) different thread counts: no more than floating-point re-association
    // line and direct solves amplify the re-association of the give-type accumulation by their condition number, which grows
    // with the grid: on the levels above 10000 nodes (drawn since round 11) 1.2e-8 was observed on the unchanged tree
    // between 1 and 2 threads, so the bound there is 1e-6; thread-count defects show up as 1e-3 and more
    const bool large = c.getS("size_class", "") == "above_10000_nodes";
    const double rel = solve ? 1e-6 : ((op >= OP11_SM_GIVE && op <= OP11_DS_TAKE) ? (large ? 1e-6 : 1e-8) : 1e-10);
    double dmax = 0;
    bool bitwise = true;
    for (size_t i = 0; i < a1.size(); i++) {
        dmax = std::max(dmax, std::fabs(a1[i] - b[i]));
        if (std::memcmp(&a1[i], &b[i], 8) != 0)
            bitwise = false;
    }
    if (bitwise)
        o.cls("bitwise_equal_across_thread_counts");
    o.mx(std::string("thread_count_rel_diff_") + (solve ? "solve" : "operator"), scale > 0 ? dmax / scale : dmax);
    if (solve && !a1.empty() && a1.back() != b.back()) {
        // a different iteration count between thread counts is legitimate only through a borderline stop test
        o.cls("iteration_count_differs_between_thread_counts");
    }
    else if (op == OP11_TRANSFERS && !bitwise) {
        // interpolation, restriction and injection compute every output entry in one thread from read-only data: there is
        // nothing to re-associate, so any difference between thread counts is more than re-association
        char buf[200];
        snprintf(buf, sizeof buf, "transfers: results with %d and %d threads are not bit-identical (max diff %.3e, scale %.3e)", t1, t2, dmax, scale);
        o.fail("thread_count_dependence", buf);
        return o;
    }
    else if (dmax > rel * (scale + 1e-300)) {
        char buf[200];
        snprintf(buf, sizeof buf, "%s: results with %d and %d threads differ by %.3e (scale %.3e)", kOpNames11[op], t1, t2, dmax, scale);
        o.fail("thread_count_dependence", buf);
        return o;
    }
    // (iii) kernels equal their mathematical definition on both sides of the parallelisation threshold
    if (op == OP11_KERNELS) {
        const int n = (int)c.getI("kernel_n");
        Rnd r(c.getU("x_seed"));
        std::vector<LD> x(n), y(n);
        for (int i = 0; i < n; i++) {
            x[i] = (double)r.normal();
            y[i] = (double)r.normal();
        }
        LD dot = 0, adot = 0, l1 = 0, l2 = 0, linf = 0;
        for (int i = 0; i < n; i++) {
            dot += x[i] * y[i];
            adot += fabsl(x[i] * y[i]);
            l1 += fabsl(x[i]);
            l2 += x[i] * x[i];
            linf = std::max(linf, fabsl(x[i]));
        }
        const LD tolDot = (n + 4) * EPS * adot, tolL1 = (n + 4) * EPS * l1, tolL2 = (n + 4) * EPS * l2;
        for (const std::vector<double>* out : {&a1, &b}) {
            if (fabsl((*out)[0] - dot) > tolDot || fabsl((*out)[1] - l1) > tolL1 || fabsl((*out)[2] - l2) > tolL2 || (LD)(*out)[3] != linf) {
                char buf[300];
                snprintf(buf, sizeof buf, "n=%d: dot %.17g (exact %.17Lg), l1 %.17g (%.17Lg), l2^2 %.17g (%.17Lg), inf %.17g (%.17Lg)", n, (*out)[0], dot,
                         (*out)[1], l1, (*out)[2], l2, (*out)[3], linf);
                o.fail("kernel_definition", buf);
                return o;
            }
        }
        // element-wise kernels: z = x; z += y; z -= x; z = 2 z - 0.5 y; z *= 3  -> exactly rounded step by step
        for (int i = 0; i < n; i++) {
            double z = (double)x[i];
            z        = z + (double)y[i];
            z        = z - (double)x[i];
            z        = 2.0 * z + (-0.5) * (double)y[i];
            z        = z * 3.0;
            if (std::memcmp(&z, &a1[4 + i], 8) != 0) {
                o.fail("kernel_elementwise", "element-wise kernel chain differs from the step-by-step definition at index " + std::to_string(i));
                return o;
            }
            if (a1[4 + n + i] != 1.25 || std::memcmp(&a1[4 + 2 * n + i], &(const double&)(double)x[i], 0) != 0 || a1[4 + 2 * n + i] != (double)x[i]) {
                o.fail("kernel_elementwise", "assign / Vector copy differs at index " + std::to_string(i));
                return o;
            }
        }
        o.cls(n > 10000 ? "kernel_above_threshold" : "kernel_below_threshold");
    }
    return o;
}

static KV genCase()
{
    KV c = genCase11(false);
    c.putI("t1", rpick({1, 2, 3, 4, 5, 8, 16, 32}));
    c.putI("t2", rpick({1, 2, 3, 4, 5, 8, 16, 32}));
    c.putI("confine", rint(0, 2) == 0 ? 1 : 0);
    return c;
}

int main(int argc, char** argv)
{
    return harnessMain(argc, argv, "C12 reproducibility", genCase, runCase);
}
