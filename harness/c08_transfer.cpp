// FLAVOURS: rel asan
// C08: restriction = prolongation^T, optimised == reference, injection o prolongation = id,
//      prolongation convex (weights >= 0, sum 1) and exact for functions linear in r or theta.
//   ProblemSpec(fine grid) + threads, coarse_split_mode, coarse_circles, x_kind/x_seed (coarse), y_kind/y_seed (fine),
//   probe, lin_a, lin_b, include_known
#include "engine.h"
#include "transfer_common.h"

static const double EPS = 2.220446049250313e-16;

static Outcome runCase(const KV& c)
{
    Outcome o;
    setVectorScaleExp(c, o);
    ProblemSpec p     = ProblemSpec::get(c);
    const int threads = (int)c.getI("threads");
    const bool probe  = c.getI("probe", 0) != 0;
    const bool includeKnown = c.getI("include_known", 0) != 0;
    LevelPair LP;
    LP.build(p, threads, (int)c.getI("coarse_split_mode", 0), (int)c.getI("coarse_circles", 0), (int)c.getI("level_depth", 0));
    if (c.getI("level_depth", 0) > 0)
        o.cls("deeper_level_pair");
    if (c.getI("warm_earlier_pair", 0)) {
        warmUpOnEarlierPair(LP, p, threads, (int)c.getI("level_depth", 0));
        o.cls("interpolation_object_used_on_an_earlier_pair");
    }
    const PolarGrid& fg = LP.fine->grid();
    const PolarGrid& cg = LP.coarse->grid();
    const int nf = fg.numberOfNodes(), nc = cg.numberOfNodes();
    const Interpolation& I = *LP.interp;
    o.nontrivial = !p.uniformGrid() || nf > 10000;
    o.signature  = std::to_string(fg.nr()) + "x" + std::to_string(fg.ntheta()) + "s" + std::to_string(fg.numberSmootherCircles()) + "/" +
                  std::to_string(cg.numberSmootherCircles()) + "t" + std::to_string(threads) + (p.uniformGrid() ? "u" : "n") + (probe ? "P" : "");
    if (nf > 10000)
        o.cls("fine_nodes_gt_10000");
    if (threads > 1)
        o.cls("multithreaded");
    if (!p.uniformGrid())
        o.cls("nonuniform");
    if (probe)
        o.cls("probed");
    bool allMid = true;
    for (int i = 1; i < fg.nr(); i += 2)
        allMid = allMid && isMidpointR(fg, i);
    for (int j = 1; j < fg.ntheta(); j += 2)
        allMid = allMid && isMidpointT(fg, j);
    o.cls(allMid ? "midpoint_nested" : "free_spacing");

    Vector<double> x = makeVector(cg, (int)c.getI("x_kind"), c.getU("x_seed"));
    Vector<double> y = makeVector(fg, (int)c.getI("y_kind"), c.getU("y_seed"));
    Vector<double> ax(nc), ay(nf);
    for (int i = 0; i < nc; i++)
        ax[i] = std::fabs(x[i]);
    for (int i = 0; i < nf; i++)
        ay[i] = std::fabs(y[i]);

    typedef void (Interpolation::*Op)(const Level&, const Level&, Vector<double>&, const Vector<double>&) const;
    struct Pair {
        const char* name;
        Op P0, P, R0, R;
    };
    const Pair pairs[2] = {{"standard", &Interpolation::applyProlongation0, &Interpolation::applyProlongation,
                            &Interpolation::applyRestriction0, &Interpolation::applyRestriction},
                           {"extrapolated", &Interpolation::applyExtrapolatedProlongation0, &Interpolation::applyExtrapolatedProlongation,
                            &Interpolation::applyExtrapolatedRestriction0, &Interpolation::applyExtrapolatedRestriction}};
    for (int pi = 0; pi < 2; pi++) {
        const Pair& pr = pairs[pi];
        const std::string nm = pr.name;
        Vector<double> Px(nf), Px0(nf), Pax(nf), Ry(nc), Ry0(nc), Ray(nc);
        for (int i = 0; i < nf; i++)
            Px[i] = Px0[i] = 1e300;
        for (int i = 0; i < nc; i++)
            Ry[i] = Ry0[i] = 1e300;
        (I.*pr.P)(*LP.coarse, *LP.fine, Px, x);
        (I.*pr.P0)(*LP.coarse, *LP.fine, Px0, x);
        (I.*pr.P)(*LP.coarse, *LP.fine, Pax, ax);
        (I.*pr.R)(*LP.fine, *LP.coarse, Ry, y);
        (I.*pr.R0)(*LP.fine, *LP.coarse, Ry0, y);
        (I.*pr.R)(*LP.fine, *LP.coarse, Ray, ay);
        // (ii) optimised == reference implementation
        for (int i = 0; i < nf; i++)
            if (std::fabs(Px[i] - Px0[i]) > 4 * EPS * Pax[i]) {
                int a, b;
                fg.multiIndex(i, a, b);
                o.fail("optimised_vs_reference", nm + " prolongation: optimised and reference differ at fine node (" + std::to_string(a) + "," +
                                                     std::to_string(b) + "): " + KV::d2s(Px[i]) + " vs " + KV::d2s(Px0[i]));
                return o;
            }
        for (int i = 0; i < nc; i++)
            if (std::fabs(Ry[i] - Ry0[i]) > 8 * EPS * Ray[i]) {
                int a, b;
                cg.multiIndex(i, a, b);
                o.fail("optimised_vs_reference", nm + " restriction: optimised and reference differ at coarse node (" + std::to_string(a) + "," +
                                                     std::to_string(b) + "): " + KV::d2s(Ry[i]) + " vs " + KV::d2s(Ry0[i]));
                return o;
            }
        // (i) <P x, y> = <x, R y>
        LD lhs = 0, rhs = 0, bound = 0;
        for (int i = 0; i < nf; i++) {
            lhs += (LD)Px[i] * (LD)y[i];
            bound += (LD)Pax[i] * (LD)ay[i];
        }
        for (int i = 0; i < nc; i++) {
            rhs += (LD)x[i] * (LD)Ry[i];
            bound += (LD)ax[i] * (LD)Ray[i];
        }
        bound *= 16 * EPS;
        if (bound > 0)
            o.mx(nm + "_adjoint_defect_over_bound", (double)(fabsl(lhs - rhs) / bound));
        if (fabsl(lhs - rhs) > bound) {
            char buf[256];
            snprintf(buf, sizeof buf, "%s pair: <Px,y>=%.17Lg but <x,Ry>=%.17Lg (difference %.3Le, rounding bound %.3Le)", pr.name, lhs, rhs,
                     fabsl(lhs - rhs), bound);
            o.fail("adjoint", buf);
            return o;
        }
        // (iii) P copies coarse values; injection after prolongation is the identity (bitwise)
        Vector<double> back(nc);
        I.applyInjection(*LP.fine, *LP.coarse, back, Px);
        for (int i = 0; i < cg.nr(); i++)
            for (int j = 0; j < cg.ntheta(); j++) {
                const int kc = cg.index(i, j), kf = fg.index(2 * i, 2 * j);
                if (std::memcmp(&Px[kf], &x[kc], 8) != 0) {
                    o.fail("copies_coarse", nm + " prolongation does not copy the coarse value at (" + std::to_string(i) + "," + std::to_string(j) + ")");
                    return o;
                }
                if (std::memcmp(&back[kc], &x[kc], 8) != 0) {
                    o.fail("injection_identity", "injection after " + nm + " prolongation is not the identity at (" + std::to_string(i) + "," +
                                                     std::to_string(j) + ")");
                    return o;
                }
            }
        // no new extrema
        double xmin = 1e300, xmax = -1e300;
        for (int i = 0; i < nc; i++) {
            xmin = std::min(xmin, x[i]);
            xmax = std::max(xmax, x[i]);
        }
        const double slack = 4 * EPS * std::max(std::fabs(xmin), std::fabs(xmax));
        for (int i = 0; i < nf; i++)
            if (Px[i] < xmin - slack || Px[i] > xmax + slack) {
                o.fail("convexity", nm + " prolongation creates a new extremum: " + std::to_string(Px[i]) + " outside [" + std::to_string(xmin) +
                                        "," + std::to_string(xmax) + "]");
                return o;
            }
        // (iv) weights by probing unit vectors (small grids)
        if (probe && nf <= 900) {
            std::vector<double> rowsum(nf, 0.0);
            std::vector<int> rownnz(nf, 0);
            Vector<double> e(nc), col(nf);
            for (int k = 0; k < nc; k++)
                e[k] = 0.0;
            for (int k = 0; k < nc; k++) {
                e[k] = 1.0;
                (I.*pr.P)(*LP.coarse, *LP.fine, col, e);
                for (int i = 0; i < nf; i++) {
                    if (col[i] < 0) {
                        o.fail("negative_weight", nm + " prolongation has a negative weight " + std::to_string(col[i]));
                        return o;
                    }
                    if (col[i] != 0) {
                        rowsum[i] += col[i];
                        rownnz[i]++;
                    }
                }
                e[k] = 0.0;
            }
            for (int i = 0; i < nf; i++)
                if (std::fabs(rowsum[i] - 1.0) > 4 * EPS || rownnz[i] > 4) {
                    int a, b;
                    fg.multiIndex(i, a, b);
                    o.fail("weights_sum", nm + " prolongation weights at fine node (" + std::to_string(a) + "," + std::to_string(b) +
                                              ") sum to " + KV::d2s(rowsum[i]) + " over " + std::to_string(rownnz[i]) + " entries");
                    return o;
                }
        }
        // (v) linear reproduction in r and in theta (two branch cuts so that every node is covered)
        const double la = c.getD("lin_a", 0.3), lb = c.getD("lin_b", 1.7);
        for (int mode = 0; mode < 3; mode++) {
            Vector<double> uc(nc), up(nf);
            auto thetaT = [&](double t) { return mode == 1 ? t : (t < M_PI ? t : t - 2 * M_PI); };
            for (int i = 0; i < cg.nr(); i++)
                for (int j = 0; j < cg.ntheta(); j++)
                    uc[cg.index(i, j)] = mode == 0 ? la + lb * cg.radius(i) : la + lb * thetaT(cg.theta(j));
            (I.*pr.P)(*LP.coarse, *LP.fine, up, uc);
            const int nt = fg.ntheta();
            for (int i = 0; i < fg.nr(); i++)
                for (int j = 0; j < nt; j++) {
                    double expect;
                    if (mode == 0)
                        expect = la + lb * fg.radius(i);
                    else {
                        // skip nodes whose stencil crosses this mode's branch cut
                        const double tl = fg.theta(j == 0 ? 0 : j - 1), tr = fg.theta(j + 1);
                        if (mode == 1 && (j + 1 == nt))
                            continue; // neighbour j+1 wraps to 0
                        if (mode == 2 && tl < M_PI && tr >= M_PI && (j & 1))
                            continue;
                        if (mode == 2 && j + 1 == nt && (j & 1)) {
                            // neighbours at theta(j-1) (-> negative branch) and 0: continuous across 2 pi in this branch
                        }
                        expect = la + lb * thetaT(fg.theta(j));
                    }
                    const bool midR = !(i & 1) || isMidpointR(fg, i), midT = !(j & 1) || isMidpointT(fg, j);
                    const bool relevantMid = mode == 0 ? midR : midT;
                    if (!relevantMid) {
                        if (pi == 1)
                            continue; // the extrapolated pair is defined on midpoint-nested grids: 1/2,1/2 weights
                        if (!includeKnown) {
                            o.cnt("excluded_known_F6_nodes");
                            continue; // known finding F6
                        }
                    }
                    const double err = std::fabs(up[fg.index(i, j)] - expect);
                    const double tol = 16 * EPS * (std::fabs(la) + std::fabs(lb) * (mode == 0 ? fg.radius(fg.nr() - 1) : 2 * M_PI));
                    o.mx("linear_reproduction_err_over_tol", relevantMid ? err / tol : 0.0);
                    if (err > tol) {
                        char buf[300];
                        snprintf(buf, sizeof buf, "%s prolongation of u=%g%+g*%s at fine node (%d,%d) gives %.17g, exact %.17g (midpoint node: %s)",
                                 pr.name, la, lb, mode == 0 ? "r" : "theta", i, j, up[fg.index(i, j)], expect, relevantMid ? "yes" : "no");
                        KV dummy;
                        o.fail(relevantMid ? "linear_reproduction" : "linear_reproduction_nonmidpoint", buf);
                        return o;
                    }
                }
        }
    }
    return o;
}

static KV genCase()
{
    KV c;
    GridOpts go;
    go.nr_min = 5;
    go.nr_max = 41;
    go.nt_min = 8;
    go.nt_max = 64;
    go.coarsenable = true;
    go.allow_large = true;
    go.allow_culham = false;
    ProblemSpec p = genProblem(go);
    // half of the cases: midpoint-nested spacing (the shape the grid generator produces), no exclusions there
    if (rbool()) {
        const double R0 = p.radii.front(), Rm = p.radii.back();
        p.radii  = genRadii(p.nr(), rbool() ? 3 : 0, R0, Rm);
        p.angles = genAngles(p.ntheta(), rbool() ? 2 : 0);
    }
    else {
        // free spacing: independent random ratios in both directions (every second angle still has its partner)
        const double R0 = p.radii.front(), Rm = p.radii.back();
        p.radii  = genRadii(p.nr(), rbool() ? 2 : 1, R0, Rm);
        p.angles = genAngles(p.ntheta(), rint(0, 2) == 0 ? 0 : 1);
    }
    p.put(c);
    c.putI("threads", rpick({1, 2, 5, 16}));
    c.putI("coarse_split_mode", rint(0, 1));
    c.putI("coarse_circles", rint(0, (p.nr() + 1) / 2));
    c.putI("level_depth", rweighted({3, 1, 1}));
    c.putI("warm_earlier_pair", rweighted({2, 1}));
    c.putI("x_kind", rweighted({4, 3, 1, 1, 1, 1}));
    c.putU("x_seed", rseed());
    c.putI("vec_scale_exp", rpick({0, 0, 0, 0, 0, 0, -300, -100, 100, 300}));
    c.putI("y_kind", rweighted({4, 3, 1, 1, 1, 1}));
    c.putU("y_seed", rseed());
    c.putI("probe", (p.nr() * p.ntheta() <= 600 && rint(0, 2) == 0) ? 1 : 0);
    c.putD("lin_a", runi(-2, 2));
    c.putD("lin_b", runi(-3, 3));
    return c;
}

int main(int argc, char** argv)
{
    return harnessMain(argc, argv, "C08 grid transfer", genCase, runCase);
}
