// FLAVOURS: rel asan
// C03: one discrete operator - give, take, cached, uncached, any level agree (and equal A_ref).
//   ProblemSpec + depth, threads, u_kind/u_seed, f_kind/f_seed, probe (0/1)
#include "engine.h"
#include "problem.h"
#include "refop.h"

static const double EPS = 2.220446049250313e-16;
static const double CTOL = 32.0;

static uint64_t ulpDist(double a, double b)
{
    if (a == b)
        return 0;
    if (std::signbit(a) != std::signbit(b))
        return UINT64_MAX;
    int64_t x, y;
    std::memcpy(&x, &a, 8);
    std::memcpy(&y, &b, 8);
    return (uint64_t)std::llabs(x - y);
}

static Outcome runCase(const KV& c)
{
    Outcome o;
    setVectorScaleExp(c, o);
    ProblemSpec p     = ProblemSpec::get(c);
    const int depth   = (int)c.getI("depth");
    const int threads = (int)c.getI("threads");
    const bool shortTeam = c.getI("short_team", 0) != 0 && threads > 1;
    if (shortTeam)
        o.cls("called_with_a_team_smaller_than_requested");
    const bool probe  = c.getI("probe", 0) != 0;
    const int ukind = (int)c.getI("u_kind"), fkind = (int)c.getI("f_kind");
    const uint64_t useed = c.getU("u_seed"), fseed = c.getU("f_seed");

    // four hierarchies, one per cache-flag combination
    Hierarchy H[4];
    for (int k = 0; k < 4; k++)
        H[k].build(p, (k & 1) != 0, (k & 2) != 0, depth);
    const int L = (int)H[0].levels.size();
    const PolarGrid& g0 = H[0].levels[0]->grid();
    const int nC0 = g0.numberSmootherCircles();
    o.nontrivial = (p.geom != 0 || !p.uniformGrid()) && nC0 > 0 && nC0 < g0.nr();
    o.signature  = p.sig() + "c" + std::to_string(nC0) + "d" + std::to_string(L) + "t" + std::to_string(threads);
    o.cls(std::string("geom_") + kGeomNames[p.geom]);
    o.cls(p.dirbc ? "dirbc" : "across_origin");
    if ((p.ntheta() & (p.ntheta() - 1)) != 0)
        o.cls("ntheta_not_pow2");
    if (L >= 3)
        o.cls("depth_ge_2");
    if (nC0 == 0 || nC0 == g0.nr())
        o.cls("split_extreme");
    if (p.radii[0] <= 1e-5 * p.Rmax * 1.0001)
        o.cls("R0_le_1e-5");
    if (g0.numberOfNodes() > 10000)
        o.cls("nodes_gt_10000");
    if (probe)
        o.cls("probed");
    if (threads > 1)
        o.cls("multithreaded");

    for (int l = 0; l < L; l++) {
        const PolarGrid& g = H[0].levels[l]->grid();
        const int n        = g.numberOfNodes();
        RefOp ref(g, *H[0].geometry, *H[0].coefficients, p.dirbc);
        Vector<double> u = makeVector(g, ukind, useed + l), f = makeVector(g, fkind, fseed + l);
        std::vector<LD> Au, mag;
        ref.apply(u, Au, mag);
        // per-row scale: |a_ii| * max |u| over the stencil (absolute error of the mixed coefficients)
        std::vector<LD> scale(n, 0);
        {
            std::vector<RefOp::Entry> e;
            for (int i = 0; i < g.nr(); i++)
                for (int j = 0; j < g.ntheta(); j++) {
                    ref.row(i, j, e);
                    LD dia = 0, um = 0;
                    for (auto& q : e) {
                        if (q.i == i && q.j == j)
                            dia = fabsl(q.v);
                        um = std::max(um, fabsl((LD)u[g.index(q.i, q.j)]));
                    }
                    scale[g.index(i, j)] = dia * um;
                }
        }
        // implementations: give x 4 cache combinations, take (both caches); with via_level also 5/6: take and give through
        // the Level interface the solver uses, on a Level object first initialised for the OTHER boundary mode
        const int nimpl = c.getI("via_level", 0) ? 7 : 5;
        for (int impl = 0; impl < nimpl; impl++) {
            const int hk           = impl < 4 ? impl : 3;
            const Level& lev       = *H[hk].levels[l];
            const std::string name = impl < 4 ? ("give[coef=" + std::to_string(hk & 1) + ",geom=" + std::to_string((hk >> 1) & 1) + "]")
                                              : (impl == 4 ? "take" : (impl == 5 ? "take via re-initialised Level" : "give via re-initialised Level"));
            Vector<double> res(n);
            for (int i = 0; i < n; i++)
                res[i] = 1e300; // must be overwritten
            if (impl >= 5) {
                Level& L = *H[3].levels[l];
                const auto method = impl == 5 ? StencilDistributionMethod::CPU_TAKE : StencilDistributionMethod::CPU_GIVE;
                L.initializeResidual(*H[3].geometry, *H[3].coefficients, !p.dirbc, 1, method);
                L.initializeResidual(*H[3].geometry, *H[3].coefficients, p.dirbc, 1, method);
                L.computeResidual(res, f, u);
                o.cls("via_level_reinitialised");
            }
            else if (impl < 4) {
                // known finding F15: with an empty circle section and the across-origin closure the parallel
                // give residual races on the antipodal radial line; excluded by construction (counted) unless
                // the case asks for it (include_known=1, used by the regression case findings/F15.case)
                int thr = threads;
                if (threads > 1 && !p.dirbc && lev.grid().numberSmootherCircles() == 0 && !c.getI("include_known", 0)) {
                    thr = 1;
                    o.cnt("excluded_known_F15");
                }
                ResidualGive op(lev.grid(), lev.levelCache(), *H[hk].geometry, *H[hk].coefficients, p.dirbc, thr);
                if (shortTeam) {
                    // OpenMP never promises the requested team size: called from inside an enclosing parallel region (nested
                    // parallelism off, the default) the operator's own regions run with a team of one
#pragma omp parallel num_threads(2)
                    {
#pragma omp single
                        op.computeResidual(res, f, u);
                    }
                }
                else
                    op.computeResidual(res, f, u);
                // the regression case of a (timing dependent) race repeats the evaluation and keeps a deviating result
                for (int rep = 0; rep < (int)c.getI("repeat", 0); rep++) {
                    Vector<double> res2(n);
                    op.computeResidual(res2, f, u);
                    if (std::memcmp(res2.begin(), res.begin(), sizeof(double) * n) != 0) {
                        // keep the one that is further from the reference at the first differing entry
                        for (int q = 0; q < n; q++)
                            if (res2[q] != res[q]) {
                                LD e1 = fabsl((LD)res[q] - ((LD)f[q] - Au[q])), e2 = fabsl((LD)res2[q] - ((LD)f[q] - Au[q]));
                                if (e2 > e1)
                                    res = res2;
                                break;
                            }
                        break;
                    }
                }
            }
            else {
                ResidualTake op(lev.grid(), lev.levelCache(), *H[hk].geometry, *H[hk].coefficients, p.dirbc, threads);
                if (shortTeam) {
#pragma omp parallel num_threads(2)
                    {
#pragma omp single
                        op.computeResidual(res, f, u);
                    }
                }
                else
                    op.computeResidual(res, f, u);
            }
            for (int i = 0; i < g.nr(); i++)
                for (int j = 0; j < g.ntheta(); j++) {
                    const int k = g.index(i, j);
                    if (ref.isDirichlet(i)) {
                        if (res[k] != f[k] - u[k]) {
                            o.fail("dirichlet_row", name + " level " + std::to_string(l) + ": Dirichlet row (" + std::to_string(i) + "," +
                                                        std::to_string(j) + ") is not f-u exactly");
                            return o;
                        }
                        continue;
                    }
                    const LD expect = (LD)f[k] - Au[k];
                    const LD tol    = CTOL * EPS * (mag[k] + scale[k] + fabsl((LD)f[k]));
                    const LD err    = fabsl((LD)res[k] - expect);
                    if (tol > 0)
                        o.mx("residual_err_over_tol", (double)(err / tol));
                    if (!(err <= tol)) {
                        char buf[300];
                        snprintf(buf, sizeof buf, "%s level %d node (%d,%d): residual %.17g, reference %.17Lg, |diff| %.3Le > tol %.3Le",
                                 name.c_str(), l, i, j, res[k], expect, err, tol);
                        o.fail("residual_vs_reference", buf);
                        return o;
                    }
                }
        }
        // coarse-level caches equal a fresh evaluation at the coarse nodes
        if (l > 0) {
            for (int hk = 0; hk < 4; hk++) {
                const LevelCache& lc = H[hk].levels[l]->levelCache();
                LevelCache fresh(g, *H[hk].coefficients, *H[hk].geometry, (hk & 1) != 0, (hk & 2) != 0);
                auto cmpV = [&](const std::vector<double>& a, const std::vector<double>& b, const char* what) {
                    if (a.size() != b.size())
                        return std::string(what) + " size differs";
                    for (size_t i = 0; i < a.size(); i++)
                        if (ulpDist(a[i], b[i]) > 4)
                            return std::string(what) + "[" + std::to_string(i) + "] differs from a fresh evaluation";
                    return std::string();
                };
                auto cmpW = [&](const Vector<double>& a, const Vector<double>& b, const char* what) {
                    if (a.size() != b.size())
                        return std::string(what) + " size differs";
                    for (int i = 0; i < a.size(); i++)
                        if (ulpDist(a[i], b[i]) > 4)
                            return std::string(what) + "[" + std::to_string(i) + "] differs from a fresh evaluation";
                    return std::string();
                };
                std::string w;
                if ((w = cmpV(lc.sin_theta(), fresh.sin_theta(), "sin_theta")).empty() &&
                    (w = cmpV(lc.cos_theta(), fresh.cos_theta(), "cos_theta")).empty() &&
                    (w = cmpV(lc.coeff_alpha(), fresh.coeff_alpha(), "coeff_alpha")).empty() &&
                    (w = cmpV(lc.coeff_beta(), fresh.coeff_beta(), "coeff_beta")).empty() &&
                    (w = cmpW(lc.arr(), fresh.arr(), "arr")).empty() && (w = cmpW(lc.att(), fresh.att(), "att")).empty() &&
                    (w = cmpW(lc.art(), fresh.art(), "art")).empty())
                    w = cmpW(lc.detDF(), fresh.detDF(), "detDF");
                if (!w.empty()) {
                    o.fail("coarse_cache", "level " + std::to_string(l) + " cache flags " + std::to_string(hk) + ": " + w);
                    return o;
                }
            }
        }
        // entrywise: probed matrices of give and take against A_ref (documented sparsity and values)
        if (probe && n <= 900) {
            DMat R = ref.dense();
            for (int impl = 0; impl < 2; impl++) {
                const Level& lev = *H[3].levels[l];
                DMat M;
                if (impl == 0) {
                    ResidualGive op(lev.grid(), lev.levelCache(), *H[3].geometry, *H[3].coefficients, p.dirbc, 1);
                    M = probeMatrix(op, g);
                }
                else {
                    ResidualTake op(lev.grid(), lev.levelCache(), *H[3].geometry, *H[3].coefficients, p.dirbc, 1);
                    M = probeMatrix(op, g);
                }
                for (int a = 0; a < n; a++) {
                    const LD dia = fabsl(R(a, a));
                    int nnz      = 0;
                    for (int b = 0; b < n; b++) {
                        const LD err = fabsl(M(a, b) - R(a, b));
                        if (M(a, b) != 0)
                            nnz++;
                        if (err > CTOL * EPS * dia) {
                            int ia, ja, ib, jb;
                            g.multiIndex(a, ia, ja);
                            g.multiIndex(b, ib, jb);
                            char buf[300];
                            snprintf(buf, sizeof buf, "%s level %d: entry row (%d,%d) col (%d,%d) is %.17Lg, documented stencil gives %.17Lg",
                                     impl ? "take" : "give", l, ia, ja, ib, jb, M(a, b), R(a, b));
                            o.fail("matrix_entry", buf);
                            return o;
                        }
                        if (dia > 0)
                            o.mx("entry_err_over_tol", (double)(err / (CTOL * EPS * dia)));
                    }
                    int ia, ja;
                    g.multiIndex(a, ia, ja);
                    const int maxnnz = ref.isDirichlet(ia) ? 1 : (ia == 0 ? 7 : 9);
                    if (nnz > maxnnz) {
                        o.fail("sparsity", std::string(impl ? "take" : "give") + ": row (" + std::to_string(ia) + "," + std::to_string(ja) +
                                               ") has " + std::to_string(nnz) + " entries, documented stencil has at most " + std::to_string(maxnnz));
                        return o;
                    }
                }
            }
        }
    }
    return o;
}

static KV genCase()
{
    KV c;
    GridOpts go;
    go.nr_min = 4;
    go.extreme_units = true;
    go.nr_max = 40;
    go.nt_min = 4;
    go.nt_max = 48;
    go.allow_large = true;
    const int depth = rweighted({3, 3, 2, 1});
    go.coarsenable  = depth > 0;
    ProblemSpec p   = genProblem(go);
    p.put(c);
    c.putI("depth", depth);
    c.putI("threads", rpick({1, 1, 2, 3, 5, 16}));
    c.putI("short_team", rweighted({4, 1}));
    c.putI("via_level", rweighted({3, 1}));
    c.putI("u_kind", rweighted({4, 3, 1, 1, 1, 1}));
    c.putU("u_seed", rseed());
    c.putI("vec_scale_exp", rpick({0, 0, 0, 0, 0, 0, -300, -100, 100, 300}));
    c.putI("f_kind", rweighted({4, 3, 1, 1, 1, 1}));
    c.putU("f_seed", rseed());
    c.putI("probe", (p.nr() * p.ntheta() <= 400 && rint(0, 2) == 0) ? 1 : 0);
    return c;
}

int main(int argc, char** argv)
{
    return harnessMain(argc, argv, "C03 one discrete operator", genCase, runCase);
}
