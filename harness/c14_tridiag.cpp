// FLAVOURS: rel asan
// LIBS: none
// C14: tridiagonal line solvers solve every SPD system, every time.
#include "engine.h"
#include "dense.h"
#include "tridiag_case.h"

int main(int argc, char** argv)
{
    return harnessMain(argc, argv, "C14 tridiagonal solvers", genTridiagCase, runTridiagCase);
}
