// FLAVOURS: rel asan
// C18: generated grids are valid, nested and coarsenable; files round-trip.
//   R0, Rmax, nr_exp, ntheta_exp, aniso, div, refinement, max_levels, file_mode, precision, mut_seed
#include "engine.h"
#include "access.h"
#include "gridgen.h"
#include "InputFunctions/DomainGeometry/circularGeometry.h"
#include "InputFunctions/DensityProfileCoefficients/poissonCoefficients.h"
#include "InputFunctions/BoundaryConditions/polarR6_Boundary_CircularGeometry.h"
#include "InputFunctions/SourceTerms/polarR6_Poisson_CircularGeometry.h"
#include <fstream>

static const double EPS = 2.220446049250313e-16;

static std::string validGrid(const std::vector<double>& rad, const std::vector<double>& ang, double R0, double Rmax,
                             bool parametric)
{
    if (rad.size() < 2)
        return "fewer than two radii";
    for (size_t i = 1; i < rad.size(); i++)
        if (!(rad[i] > rad[i - 1]))
            return "radii not strictly increasing at " + std::to_string(i);
    if (!(rad.front() > 0))
        return "first radius not positive";
    const int nt = (int)ang.size() - 1;
    if (nt < 2)
        return "fewer than two angular divisions";
    for (int j = 1; j <= nt; j++)
        if (!(ang[j] > ang[j - 1]))
            return "angles not strictly increasing";
    // every angle has its antipodal partner (also for grids loaded from files; tolerance far above the constructor's own)
    for (int j = 0; j < nt; j++) {
        const double want = ang[j] < M_PI ? ang[j] + M_PI : ang[j] - M_PI;
        bool found        = false;
        for (int k = 0; k <= nt && !found; k++)
            found = std::fabs(ang[k] - want) <= 1e-9;
        if (!found)
            return "angle " + std::to_string(j) + " has no antipodal partner";
    }
    if (parametric) {
        if (rad.front() != R0)
            return "first radius is not exactly R0";
        if (rad.back() != Rmax)
            return "last radius is not exactly Rmax";
        if (ang.front() != 0.0 || ang.back() != 2 * M_PI)
            return "angles do not run from exactly 0 to exactly 2 pi";
        for (int j = 0; j <= nt; j++)
            if (std::fabs(ang[j] - j * (2 * M_PI / nt)) > 16 * EPS * 2 * M_PI)
                return "angles are not uniform";
        if (nt % 2 != 0)
            return "odd number of angular divisions";
        for (int j = 0; j < nt / 2; j++)
            if (std::fabs(ang[j] + M_PI - ang[j + nt / 2]) > 16 * EPS * 2 * M_PI)
                return "angle without antipodal partner";
        // fine nodes are midpoints of the next coarser nodes
        if (rad.size() % 2 == 1)
            for (size_t i = 1; i + 1 < rad.size(); i += 2)
                if (std::fabs(rad[i] - 0.5 * (rad[i - 1] + rad[i + 1])) > 4 * EPS * rad[i + 1])
                    return "odd-index radius " + std::to_string(i) + " is not the midpoint of its neighbours";
        if (nt % 2 == 0)
            for (int j = 1; j < nt; j += 2)
                if (std::fabs(ang[j] - 0.5 * (ang[j - 1] + ang[j + 1])) > 4 * EPS * 2 * M_PI)
                    return "odd-index angle is not the midpoint of its neighbours";
    }
    return "";
}

static std::string tmpBase()
{
    const char* t = getenv("TMPDIR");
    return std::string(t ? t : "/tmp") + "/verif_c18_" + std::to_string((long)getpid());
}

static Outcome runCase(const KV& c)
{
    Outcome o;
    const double R0 = c.getD("R0"), Rmax = c.getD("Rmax"), refinement = c.getD("refinement");
    const int nr_exp = (int)c.getI("nr_exp"), nt_exp = (int)c.getI("ntheta_exp"), aniso = (int)c.getI("aniso"),
              div = (int)c.getI("div"), maxLevels = (int)c.getI("max_levels"), fileMode = (int)c.getI("file_mode"),
              precision = (int)c.getI("precision");
    const uint64_t mutSeed = c.getU("mut_seed");
    o.signature = "n" + std::to_string(nr_exp) + "t" + std::to_string(nt_exp) + "a" + std::to_string(aniso) + "d" +
                  std::to_string(div) + "f" + std::to_string(fileMode) + "p" +
                  std::to_string((int)std::floor(10 * (refinement - R0) / (Rmax - R0))) + "L" + std::to_string(maxLevels);
    o.nontrivial = aniso >= 1 || div >= 1 || fileMode != 0;
    if (aniso >= 1)
        o.cls("anisotropic");
    if (div >= 1)
        o.cls("divideBy2");
    if (refinement < R0 || refinement > Rmax)
        o.cls("refinement_outside_domain");
    o.cls("file_mode_" + std::to_string(fileMode));

    std::unique_ptr<PolarGrid> g;
    try {
        g = std::make_unique<PolarGrid>(R0, Rmax, nr_exp, nt_exp, refinement, aniso, div);
    }
    catch (const std::exception& e) {
        o.cls("rejected_by_exception");
        return o;
    }
    o.cls("accepted");
    std::string why = validGrid(g->radii(), g->angles(), R0, Rmax, true);
    if (!why.empty()) {
        o.fail("invalid_grid", "accepted parameters produced an invalid grid: " + why);
        return o;
    }
    if (aniso == 0) {
        const long enr = ((1L << nr_exp)) * (1L << div) + 1;
        if (g->nr() != enr) {
            o.fail("size", "uniform grid has " + std::to_string(g->nr()) + " radii, expected " + std::to_string(enr));
            return o;
        }
    }
    if (nt_exp >= 0 && g->ntheta() != (1 << nt_exp) * (1 << div)) {
        o.fail("size", "ntheta is not 2^ntheta_exp * 2^divideBy2");
        return o;
    }
    // nesting: grid(div) is the every-second-node subgrid of grid(div+1), bitwise
    if ((long)g->nr() * g->ntheta() < 200000) {
        std::unique_ptr<PolarGrid> g2;
        try {
            g2 = std::make_unique<PolarGrid>(R0, Rmax, nr_exp, nt_exp, refinement, aniso, div + 1);
        }
        catch (const std::exception&) {
            o.fail("nesting", "divideBy2+1 is rejected although divideBy2 is accepted");
            return o;
        }
        bool same = g2->nr() == 2 * g->nr() - 1 && g2->ntheta() == 2 * g->ntheta();
        for (int i = 0; same && i < g->nr(); i++)
            same = g->radius(i) == g2->radius(2 * i);
        for (int j = 0; same && j <= g->ntheta(); j++)
            same = g->theta(j) == g2->theta(2 * j);
        if (!same) {
            o.fail("nesting", "grid(divideBy2) is not the every-second-node subgrid of grid(divideBy2+1)");
            return o;
        }
    }
    // level count that setup() would report, and coarsenability
    {
        GMGPolar solver(std::make_unique<CircularGeometry>(Rmax), std::make_unique<PoissonCoefficients>(Rmax, refinement),
                        std::make_unique<PolarR6_Boundary_CircularGeometry>(Rmax),
                        std::make_unique<PolarR6_Poisson_CircularGeometry>(Rmax));
        solver.verbose(0);
        solver.paraview(false);
        solver.R0(R0);
        solver.Rmax(Rmax);
        solver.nr_exp(nr_exp);
        solver.ntheta_exp(nt_exp);
        solver.anisotropic_factor(aniso);
        solver.divideBy2(div);
        solver.write_grid_file(false);
        solver.load_grid_file(false);
        solver.maxLevels(maxLevels);
        solver.maxOpenMPThreads(1);
        PolarGrid fg = GMGPolarVerifAccess::createFinestGrid(solver);
        if (fg.radii() != g->radii() || fg.angles() != g->angles()) {
            o.fail("setup_grid", "the solver's finest grid differs from the grid built from the same parameters");
            return o;
        }
        int L = -1;
        try {
            L = GMGPolarVerifAccess::chooseNumberOfLevels(solver, fg);
        }
        catch (const std::exception&) {
            o.cls("levels_rejected");
        }
        if (L >= 0) {
            o.cls("levels_" + std::to_string(std::min(L, 7)));
            if (L < 2 || (maxLevels > 0 && L > maxLevels)) {
                o.fail("levels", "reported level count " + std::to_string(L) + " violates 2 <= L <= maxLevels");
                return o;
            }
            std::unique_ptr<PolarGrid> cur = std::make_unique<PolarGrid>(fg);
            for (int l = 1; l < L; l++) {
                if (cur->nr() % 2 != 1 || cur->ntheta() % 2 != 0) {
                    o.fail("levels", "level " + std::to_string(l - 1) + " cannot be coarsened but " + std::to_string(L) +
                                         " levels are reported");
                    return o;
                }
                std::unique_ptr<PolarGrid> nx;
                try {
                    nx = std::make_unique<PolarGrid>(coarseningGrid(*cur));
                }
                catch (const std::exception& e) {
                    o.fail("levels", std::string("coarsening to level ") + std::to_string(l) + " is rejected: " + e.what());
                    return o;
                }
                if (nx->nr() < 3 || nx->ntheta() < 4) {
                    o.fail("levels", "level " + std::to_string(l) + " is smaller than 3 radii / 4 angles");
                    return o;
                }
                // a level that is smoothed (all but the coarsest) needs >= 2 circles and >= 3 radial nodes
                cur = std::move(nx);
            }
            // small problems: the real setup() must agree
            if ((long)fg.nr() * fg.ntheta() <= 2500 && cur->nr() * cur->ntheta() <= 600) {
                solver.setup();
                if (GMGPolarVerifAccess::numberOfLevels(solver) != L ||
                    (int)GMGPolarVerifAccess::levels(solver).size() != L || solver.grid().radii() != g->radii()) {
                    o.fail("setup_levels", "setup() built a different hierarchy than it reports");
                    return o;
                }
                o.cls("real_setup_run");
                // the same object set up AGAIN for a neighbouring parameter set (one refinement more or less, another outer
                // radius): grid() and the hierarchy must describe the new parameters, nothing of the first setup remains
                const int div2     = div > 0 ? div - 1 : (nr_exp + div + 1 <= 6 ? div + 1 : div);
                const double Rmax2 = div2 == div ? Rmax * 1.5 : Rmax;
                if (div2 != div || Rmax2 != Rmax) {
                    solver.divideBy2(div2);
                    solver.Rmax(Rmax2);
                    std::unique_ptr<PolarGrid> g2;
                    try {
                        g2 = std::make_unique<PolarGrid>(R0, Rmax2, nr_exp, nt_exp, refinement, aniso, div2);
                    }
                    catch (const std::exception&) {
                    }
                    if (g2 && (long)g2->nr() * g2->ntheta() <= 12000) {
                        bool threw = false;
                        int L2     = -1;
                        try {
                            L2 = GMGPolarVerifAccess::chooseNumberOfLevels(solver, *g2);
                            solver.setup();
                        }
                        catch (const std::exception&) {
                            threw = true;
                        }
                        if (!threw) {
                            if (solver.grid().radii() != g2->radii() || solver.grid().angles() != g2->angles() ||
                                GMGPolarVerifAccess::numberOfLevels(solver) != L2 || (int)GMGPolarVerifAccess::levels(solver).size() != L2) {
                                o.fail("setup_again", "after a second setup() on the same object grid() / the hierarchy do not describe the new parameters");
                                return o;
                            }
                            o.cls("second_setup_run");
                        }
                    }
                }
            }
        }
    }
    // files
    if (fileMode != 0) {
        const std::string fr = tmpBase() + "_r.txt", ft = tmpBase() + "_t.txt";
        std::remove(fr.c_str());
        std::remove(ft.c_str());
        if (fileMode == 1 || fileMode == 4 || fileMode == 5 || fileMode == 6)
            g->writeToFile(fr, ft, precision);
        if (fileMode == 6) {
            // structured damage of the angle file: a line inserted into (or deleted from) one half turn only - the loaded
            // grid, if accepted, must still pass the validity predicate (every angle has its antipodal partner)
            Rnd r(mutSeed);
            std::ifstream in(ft);
            std::vector<std::string> lines;
            std::string t;
            while (std::getline(in, t))
                if (!t.empty())
                    lines.push_back(t);
            in.close();
            const int nl = (int)lines.size();
            if (nl >= 5) {
                const int half = (nl - 1) / 2;
                const bool second = r.irange(0, 1) == 1;
                const int j = (second ? half : 0) + r.irange(1, std::max(1, half - 1));
                if (r.irange(0, 1) == 0 && j + 1 < nl) {
                    char buf[64];
                    snprintf(buf, sizeof buf, "%.17g", 0.5 * (std::strtod(lines[j].c_str(), nullptr) + std::strtod(lines[j + 1].c_str(), nullptr)));
                    lines.insert(lines.begin() + j + 1, buf);
                }
                else
                    lines.erase(lines.begin() + j);
                std::ofstream out(ft, std::ios::trunc);
                for (auto& l : lines)
                    out << l << "\n";
            }
        }
        std::unique_ptr<PolarGrid> asWritten;
        if (fileMode == 5) {
            // The files are lists of numbers separated by white space. The same numbers in another layout (several per
            // line, tabs, blank lines, leading/trailing spaces, no final newline) must load as the same grid.
            try {
                asWritten = std::make_unique<PolarGrid>(fr, ft);
            }
            catch (const std::exception&) {
            }
            Rnd r(mutSeed);
            for (const std::string* victim : {&fr, &ft}) {
                std::ifstream in(*victim);
                std::vector<std::string> tok;
                std::string t;
                while (in >> t)
                    tok.push_back(t);
                in.close();
                std::ofstream out(*victim, std::ios::trunc);
                const int perLine = r.irange(1, 5);
                if (r.irange(0, 3) == 0)
                    out << "\n  ";
                for (size_t i = 0; i < tok.size(); i++) {
                    out << tok[i];
                    if (i + 1 == tok.size()) {
                        if (r.irange(0, 1))
                            out << "\n";
                    }
                    else if ((int)((i + 1) % perLine) == 0)
                        out << (r.irange(0, 3) == 0 ? " \n\n" : "\n");
                    else
                        out << (r.irange(0, 1) ? " " : "\t");
                }
            }
        }
        if (fileMode == 3) {
            std::ofstream(fr).close();
            std::ofstream(ft).close();
        }
        if (fileMode == 4) {
            // byte-level mutation of one of the two valid files
            Rnd r(mutSeed);
            const std::string& victim = r.irange(0, 1) ? fr : ft;
            std::ifstream in(victim, std::ios::binary);
            std::string s((std::istreambuf_iterator<char>(in)), std::istreambuf_iterator<char>());
            in.close();
            int nm = r.irange(1, 4);
            for (int k = 0; k < nm && !s.empty(); k++) {
                size_t pos = r.next() % s.size();
                switch (r.irange(0, 4)) {
                case 0:
                    s[pos] = "x-.e9 \n"[r.irange(0, 6)];
                    break;
                case 1:
                    s.erase(pos, r.irange(1, 30));
                    break;
                case 2:
                    s.insert(pos, s.substr(pos, r.irange(1, 40)));
                    break;
                case 3:
                    s.resize(pos);
                    break;
                default:
                    s.insert(pos, "nan ");
                    break;
                }
            }
            std::ofstream out(victim, std::ios::binary | std::ios::trunc);
            out << s;
        }
        std::unique_ptr<PolarGrid> lg;
        bool threw = false;
        try {
            lg = std::make_unique<PolarGrid>(fr, ft);
        }
        catch (const std::exception&) {
            threw = true;
        }
        std::remove(fr.c_str());
        std::remove(ft.c_str());
        if (threw)
            o.cls("file_rejected");
        else {
            o.cls("file_loaded");
            std::string w = validGrid(lg->radii(), lg->angles(), R0, Rmax, false);
            if (!w.empty()) {
                o.fail("loaded_invalid", "a grid loaded from files is invalid: " + w);
                return o;
            }
        }
        if (fileMode == 5) {
            const bool a = asWritten != nullptr, b = !threw;
            if (a != b || (a && (asWritten->radii() != lg->radii() || asWritten->angles() != lg->angles()))) {
                o.fail("file_layout", "the same numbers in another white-space layout load as a different grid (or one of the two files is rejected)");
                return o;
            }
            o.cls("file_relayout_same_grid");
        }
        if (fileMode == 1) {
            // fixed notation with `precision` decimals: half a unit of the last written decimal, plus the rounding of the
            // value read back (relative to the size of the value: radii may be large)
            const double tol0 = 0.5000001 * std::pow(10.0, -precision);
            if (threw) {
                // the written precision may legitimately destroy the grid (R0 rounds to 0, partners drift apart);
                // at the precision setup() itself uses (18) the round trip must work unless R0 < 1e-18
                if (precision >= 18) {
                    o.fail("roundtrip", "a grid written with precision 18 is rejected when loaded back");
                    return o;
                }
            }
            else {
                if (lg->nr() != g->nr() || lg->ntheta() != g->ntheta()) {
                    o.fail("roundtrip", "loaded grid has different dimensions");
                    return o;
                }
                for (int i = 0; i < g->nr(); i++)
                    if (std::fabs(lg->radius(i) - g->radius(i)) > tol0 + 2 * EPS * std::fabs(g->radius(i))) {
                        o.fail("roundtrip", "radius differs by more than the written precision");
                        return o;
                    }
                for (int j = 0; j <= g->ntheta(); j++)
                    if (std::fabs(lg->theta(j) - g->theta(j)) > tol0 + 4 * EPS * 2 * M_PI) {
                        o.fail("roundtrip", "angle differs by more than the written precision");
                        return o;
                    }
            }
        }
    }
    return o;
}

static KV genCase()
{
    KV c;
    // outer radius: the shipped values, or any scale (the code imposes none): 10^U[-2,4] with a non-round mantissa
    const double Rmax = rint(0, 3) != 0 ? rpick({1.0, 1.3, 0.7, 2.0}) : std::pow(10.0, rint(-2, 7)) * runi(1.0, 10.0); // other units, up to 1e8
    const double R0   = Rmax * genR0overRmax();
    int nr_exp        = rweighted({1, 3, 8, 8, 6, 4, 2, 1}); // 0..7
    int div           = rweighted({5, 3, 2, 1});
    while (nr_exp + div > 8)
        div--;
    int nt_exp = rweighted({8, 1, 2, 4, 4, 4, 4, 3, 2, 1, 1}) - 1; // -1..9
    while (nt_exp + div > 9)
        nt_exp--;
    int aniso = rweighted({1, 8, 5, 5, 3, 1}) - 1; // -1..4, also beyond nr_exp
    if (rint(0, 19) == 0)
        aniso = nr_exp + rint(0, 1);
    double refinement;
    switch (rweighted({3, 1, 1, 1, 1, 2, 12})) {
    case 0:
        refinement = 0.0;
        break; // the command line default
    case 1:
        refinement = R0;
        break;
    case 2:
        refinement = Rmax;
        break;
    case 3:
        refinement = -1.0;
        break;
    case 4:
        refinement = 2 * Rmax;
        break;
    case 5:
        refinement = R0 + (Rmax - R0) * rpick({0.01, 0.02, 0.98, 0.99});
        break;
    default:
        refinement = R0 + (Rmax - R0) * runi(0.0, 1.0);
        break;
    }
    c.putD("R0", R0);
    c.putD("Rmax", Rmax);
    c.putI("nr_exp", nr_exp);
    c.putI("ntheta_exp", nt_exp);
    c.putI("aniso", aniso);
    c.putI("div", div);
    c.putD("refinement", refinement);
    c.putI("max_levels", rpick({-1, -1, 0, 1, 2, 3, 4, 6}));
    c.putI("file_mode", rweighted({4, 3, 1, 1, 3, 2, 2}));
    c.putI("precision", rpick({12, 13, 14, 15, 16, 18, 18, 18, 24, 30, 40})); // more decimals than a double holds are legal too
    c.putU("mut_seed", rseed());
    return c;
}

int main(int argc, char** argv)
{
    return harnessMain(argc, argv, "C18 grid generation", genCase, runCase);
}
