// FLAVOURS: rel asan
// C09: FMG interpolation is exact high-order interpolation; the FMG start-up is a nested iteration from the
// coarsest level and a function of the problem data only.
//   part=interp : ProblemSpec(fine grid) + threads, coarse_split_mode, coarse_circles, x_kind, x_seed, poly_seed, include_known
//   part=startup: SolverCfg (+ history: 0 fresh, 1 reused after another solve, 2 polluted work vectors), pollute_seed
#include "engine.h"
#include "transfer_common.h"
#include "solver_cfg.h"
#include "ref_cycle.h"

static const double EPS = 2.220446049250313e-16;

// ---------------------------------------------------------------------------------------------- interpolation
// cubic Lagrange weights at z for nodes xs[0..3] (long double)
static void lagrange4(const LD xs[4], LD z, LD w[4])
{
    for (int a = 0; a < 4; a++) {
        LD p = 1;
        for (int b = 0; b < 4; b++)
            if (b != a)
                p *= (z - xs[b]) / (xs[a] - xs[b]);
        w[a] = p;
    }
}

static Outcome runInterp(const KV& c)
{
    Outcome o;
    setVectorScaleExp(c, o);
    ProblemSpec p     = ProblemSpec::get(c);
    const int threads = (int)c.getI("threads");
    const bool includeKnown = c.getI("include_known", 0) != 0;
    LevelPair LP;
    LP.build(p, threads, (int)c.getI("coarse_split_mode", 0), (int)c.getI("coarse_circles", 0), (int)c.getI("level_depth", 0));
    if (c.getI("level_depth", 0) > 0)
        o.cls("deeper_level_pair");
    if (c.getI("warm_earlier_pair", 0)) {
        warmUpOnEarlierPair(LP, p, threads, (int)c.getI("level_depth", 0));
        o.cls("interpolation_object_used_on_an_earlier_pair");
    }
    const PolarGrid& fg = LP.fine->grid();
    const PolarGrid& cg = LP.coarse->grid();
    const int nf = fg.numberOfNodes(), nc = cg.numberOfNodes(), nr = fg.nr(), nt = fg.ntheta(), nC = fg.numberSmootherCircles();
    const int cnt = cg.ntheta();
    o.nontrivial = !p.uniformGrid();
    o.signature  = "I" + std::to_string(nr) + "x" + std::to_string(nt) + "s" + std::to_string(nC) + "/" + std::to_string(cg.numberSmootherCircles()) +
                  "t" + std::to_string(threads) + (p.uniformGrid() ? "u" : "n") + "k" + c.getS("x_kind");
    o.cls("part_interp");
    if (nf > 10000)
        o.cls("fine_nodes_gt_10000");

    // unwrapped angle of fine index j relative to fine index j0 (so that the stencil around j0 is monotone)
    auto angleRel = [&](int j, int j0) -> LD {
        int d = j - j0; // may be outside [0,nt)
        int w = ((j % nt) + nt) % nt;
        LD t  = fg.theta(w);
        int turns = (j - w) / nt;
        (void)d;
        return t + 2.0L * M_PI * turns;
    };
    // reference interpolation of a coarse vector at fine node (i,j): tensor Lagrange; also sum |w||x|
    auto refValue = [&](const Vector<double>& x, int i, int j, LD& mag, bool& linearRule, bool& midpoint) -> LD {
        linearRule = false;
        midpoint   = true;
        // angular part: values on coarse circle ic at angle of fine node j
        auto angular = [&](int ic, LD& m) -> LD {
            if (!(j & 1)) {
                LD v = x[cg.index(ic, j / 2)];
                m    = fabsl(v);
                return v;
            }
            const int jc = j / 2; // coarse index below
            LD xs[4], w[4];
            int js[4] = {2 * (jc - 1), 2 * jc, 2 * (jc + 1), 2 * (jc + 2)};
            for (int a = 0; a < 4; a++)
                xs[a] = angleRel(js[a], j);
            lagrange4(xs, angleRel(j, j), w);
            LD v = 0;
            m    = 0;
            for (int a = 0; a < 4; a++) {
                LD xv = x[cg.index(ic, ((jc - 1 + a) % cnt + cnt) % cnt)];
                v += w[a] * xv;
                m += fabsl(w[a]) * fabsl(xv);
            }
            return v;
        };
        if (!(i & 1))
            return angular(i / 2, mag);
        const int ic = i / 2;
        if (i == 1 || i == nr - 2) {
            // documented fallback: linear in r between the two neighbouring coarse circles
            linearRule = true;
            midpoint   = isMidpointR(fg, i);
            LD m0, m1;
            LD v0 = angular(ic, m0), v1 = angular(ic + 1, m1);
            LD r0 = fg.radius(i - 1), r1 = fg.radius(i + 1), r = fg.radius(i);
            LD w0 = (r1 - r) / (r1 - r0), w1 = (r - r0) / (r1 - r0);
            mag = fabsl(w0) * m0 + fabsl(w1) * m1;
            // a node that is the midpoint only up to the rounding of its coordinate: the (known, F6) swapped
            // weights differ from the exact ones by |h1-h2|/(h1+h2) ~ eps*r/h; allow exactly that much
            if (midpoint)
                mag += fabsl(w0 - w1) / (128 * EPS) * (m0 + m1);
            return w0 * v0 + w1 * v1;
        }
        LD xs[4], w[4], v = 0;
        for (int a = 0; a < 4; a++)
            xs[a] = fg.radius(2 * (ic - 1 + a));
        lagrange4(xs, fg.radius(i), w);
        mag = 0;
        for (int a = 0; a < 4; a++) {
            LD m;
            LD va = angular(ic - 1 + a, m);
            v += w[a] * va;
            mag += fabsl(w[a]) * m;
        }
        return v;
    };
    auto nodeClass = [&](int i, int j) {
        std::string s = (i == 0 || i == nr - 1) ? "boundary" : ((i == 1 || i == nr - 2) ? "nextToBoundary" : "interior");
        s += (i & 1) ? "_rOdd" : "_rEven";
        s += (j & 1) ? "_tOdd" : "_tEven";
        s += i < nC ? "_circle" : "_radial";
        return s;
    };
    const Interpolation& I = *LP.interp;
    // (a) arbitrary coarse vector: equality with the reference Lagrange model at every fine node
    Vector<double> x = makeVector(cg, (int)c.getI("x_kind"), c.getU("x_seed")), y(nf);
    for (int i = 0; i < nf; i++)
        y[i] = 1e300;
    I.applyFMGInterpolation(*LP.coarse, *LP.fine, y, x);
    std::set<std::string> classesHit;
    for (int i = 0; i < nr; i++)
        for (int j = 0; j < nt; j++) {
            const int k = fg.index(i, j);
            classesHit.insert(nodeClass(i, j));
            if (!(i & 1) && !(j & 1)) {
                if (std::memcmp(&y[k], &x[cg.index(i / 2, j / 2)], 8) != 0) {
                    o.fail("copies_coarse", "coarse value at fine node (" + std::to_string(i) + "," + std::to_string(j) + ") is not returned bit for bit");
                    return o;
                }
                continue;
            }
            LD mag;
            bool lin, mid;
            const LD ref = refValue(x, i, j, mag, lin, mid);
            if (lin && !mid) {
                if (!includeKnown) {
                    o.cnt("excluded_known_F6_nodes");
                    continue;
                }
            }
            const LD err = fabsl((LD)y[k] - ref), tol = 128 * EPS * mag;
            if (tol > 0 && !(lin && !mid))
                o.mx("model_err_over_tol", (double)(err / tol));
            if (err > tol) {
                char buf[300];
                snprintf(buf, sizeof buf, "fine node (%d,%d) [%s]: FMG interpolation gives %.17g, %s reference gives %.17Lg (diff %.3Le, tol %.3Le)", i, j,
                         nodeClass(i, j).c_str(), y[k], lin ? "linear-in-r x cubic-in-theta" : "tensor cubic Lagrange", ref, err, tol);
                o.fail(lin && !mid ? "linear_rule_nonmidpoint" : "lagrange_model", buf);
                return o;
            }
        }
    for (auto& s : classesHit)
        o.cls("node_" + s);
    // (b) constants everywhere and polynomials p(r) q(theta~) of degree <= 3 (direct exactness, guards the model too)
    Rnd pr(c.getU("poly_seed"));
    LD pc[4], qc[4];
    for (int a = 0; a < 4; a++) {
        pc[a] = pr.uni(-1, 1);
        qc[a] = pr.uni(-1, 1);
    }
    const LD Rm = fg.radius(nr - 1);
    auto P = [&](LD r, int deg) {
        LD s = r / Rm, v = 0;
        for (int a = deg; a >= 0; a--)
            v = v * s + pc[a];
        return v;
    };
    auto Q = [&](LD t) {
        LD s = t / (2 * M_PI), v = 0;
        for (int a = 3; a >= 0; a--)
            v = v * s + qc[a];
        return v;
    };
    // branch cuts at fine even indices; a node is judged under a cut that lies outside its angular stencil
    std::vector<int> cuts;
    if (nt <= 16)
        for (int b = 0; b < nt; b += 2)
            cuts.push_back(b);
    else
        for (int q = 0; q < 4; q++)
            cuts.push_back(((q * nt / 4) / 2) * 2);
    std::vector<char> judged(nf, 0);
    for (int b : cuts) {
        auto tcut = [&](int j) -> LD { // angle with branch cut just below index b
            LD t = fg.theta(j);
            return j >= b ? t - 2 * M_PI : t;
        };
        Vector<double> uc(nc), uf(nf);
        for (int i = 0; i < cg.nr(); i++)
            for (int j = 0; j < cnt; j++)
                uc[cg.index(i, j)] = (double)(P(cg.radius(i), 3) * Q(tcut(2 * j)));
        I.applyFMGInterpolation(*LP.coarse, *LP.fine, uf, uc);
        for (int i = 0; i < nr; i++)
            for (int j = 0; j < nt; j++) {
                // stencil in theta covers fine indices j-3..j+3 (odd j) or j (even j); the cut sits between b-1 and b
                bool ok = true;
                if (j & 1)
                    for (int s = j - 2; s <= j + 3; s++)
                        if ((((s % nt) + nt) % nt) == b)
                            ok = false;
                if (!ok || judged[fg.index(i, j)])
                    continue;
                const bool nextB = (i == 1 || i == nr - 2);
                if (nextB && !isMidpointR(fg, i) && !includeKnown)
                    continue; // F6
                if (nextB)
                    continue; // only linear p is reproduced there: judged separately below
                judged[fg.index(i, j)] = 1;
                const LD expect = P(fg.radius(i), 3) * Q(tcut(j));
                const LD err    = fabsl((LD)uf[fg.index(i, j)] - expect);
                const LD tol    = 2048 * EPS * 16; // |p|,|q| <= 4 each; Lebesgue constants of the spacing classes <= ~50
                o.mx("cubic_exactness_err", (double)err);
                if (err > tol * 64) {
                    char buf[300];
                    snprintf(buf, sizeof buf, "cubic p(r)q(theta) is not reproduced at fine node (%d,%d) [%s]: got %.17g, exact %.17Lg", i, j,
                             nodeClass(i, j).c_str(), uf[fg.index(i, j)], expect);
                    o.fail("cubic_exactness", buf);
                    return o;
                }
            }
        // next-to-boundary lines: linear p, cubic q
        for (int i = 0; i < cg.nr(); i++)
            for (int j = 0; j < cnt; j++)
                uc[cg.index(i, j)] = (double)(P(cg.radius(i), 1) * Q(tcut(2 * j)));
        I.applyFMGInterpolation(*LP.coarse, *LP.fine, uf, uc);
        for (int i : {1, nr - 2})
            for (int j = 0; j < nt; j++) {
                bool ok = true;
                if (j & 1)
                    for (int s = j - 2; s <= j + 3; s++)
                        if ((((s % nt) + nt) % nt) == b)
                            ok = false;
                if (!ok)
                    continue;
                if (!isMidpointR(fg, i) && !includeKnown)
                    continue;
                const LD expect = P(fg.radius(i), 1) * Q(tcut(j));
                const LD err    = fabsl((LD)uf[fg.index(i, j)] - expect);
                if (err > 2048 * EPS * 16 * 64) {
                    char buf[300];
                    snprintf(buf, sizeof buf, "linear p(r) x cubic q(theta) is not reproduced at fine node (%d,%d): got %.17g, exact %.17Lg (midpoint: %s)", i, j,
                             uf[fg.index(i, j)], expect, isMidpointR(fg, i) ? "yes" : "no");
                    o.fail(isMidpointR(fg, i) ? "linear_exactness" : "linear_rule_nonmidpoint", buf);
                    return o;
                }
            }
    }
    // constants
    {
        Vector<double> uc(nc), uf(nf);
        for (int i = 0; i < nc; i++)
            uc[i] = 0.7310585786300049;
        I.applyFMGInterpolation(*LP.coarse, *LP.fine, uf, uc);
        for (int i = 0; i < nf; i++)
            if (std::fabs(uf[i] - uc[0]) > 512 * EPS) {
                o.fail("constants", "a constant is not reproduced at fine index " + std::to_string(i) + ": " + KV::d2s(uf[i]));
                return o;
            }
    }
    return o;
}

// ---------------------------------------------------------------------------------------------- start-up
static void pollute(GMGPolar& s, uint64_t seed)
{
    auto& L = GMGPolarVerifAccess::levels(s);
    Rnd r(seed);
    auto fill = [&](Vector<double>& v) {
        for (int i = 0; i < v.size(); i++)
            v[i] = (r.uni() - 0.5) * 2e6;
    };
    for (size_t d = 0; d < L.size(); d++) {
        fill(L[d].solution());
        fill(L[d].residual());
        fill(L[d].error_correction());
    }
}

static Outcome runStartup(const KV& c)
{
    Outcome o;
    StdoutSilencer quiet(c.getI("verbose", 0) > 0);
    SolverCfg cfg     = SolverCfg::get(c);
    const int history = (int)c.getI("history", 0);
    cfg.fmg     = 1;
    cfg.max_its = 0; // solution() after solve() is exactly the start-up result
    o.cls("part_startup");
    o.cls("history_" + std::to_string(history));
    std::unique_ptr<GMGPolar> s = cfg.make();
    try {
        if (history == 1) {
            // the object has already solved a different problem size with other options
            SolverCfg other = cfg;
            other.nr_exp    = cfg.nr_exp == 3 ? 4 : 3;
            other.fmg       = c.getI("prev_fmg", 1);
            other.max_its   = 3;
            other.extrapolation = (int)c.getI("prev_extrapolation", 0);
            other.applyChanged(*s, cfg);
            s->setup();
            s->solve();
            cfg.applyChanged(*s, other);
        }
        s->setup();
        if (history == 3) {
            // the same object has already run a full solve of this very problem (tolerances on, so the combined mode may
            // have switched its smoother); the start-up of the next solve() - no setup() in between - must not notice
            SolverCfg first = cfg;
            first.max_its   = (int)c.getI("prev_its", 40);
            first.rel_tol   = 1e-9;
            first.abs_tol   = 1e-12;
            first.applyChanged(*s, cfg);
            s->solve();
            cfg.applyChanged(*s, first);
        }
    }
    catch (const std::exception& e) {
        o.cls("rejected_by_exception");
        return o;
    }
    const int L = GMGPolarVerifAccess::numberOfLevels(*s);
    if (history == 2)
        pollute(*s, c.getU("pollute_seed"));
    s->solve();
    Vector<double> start = s->solution();
    o.signature = "S" + cfg.sig() + "h" + std::to_string(history);
    o.nontrivial = L >= 2 && history != 0;
    o.cls("levels_" + std::to_string(std::min(L, 6)));
    o.cls("fmg_its_" + std::to_string(cfg.fmg_its));
    o.cls("fmg_cycle_" + std::to_string(cfg.fmg_cycle));
    o.cls(cfg.extrapolation ? "extrapolated" : "plain");
    for (int i = 0; i < start.size(); i++)
        if (!std::isfinite(start[i])) {
            o.fail("finite", "start-up approximation is not finite");
            return o;
        }
    // (i)/(ii) equals the harness's nested iteration built from the reference cycles, same operators
    // (for history 3 the object's smoother selection is exactly what must not matter: compare with a fresh object only)
    RefCycle rc(*s);
    if (history == 3 && cfg.extrapolation == 3)
        rc.fullGridSmoothing = true; // what a fresh object uses during its start-up in the combined mode
    Vector<double> ref = rc.fmgStart(cfg.fmg_cycle, cfg.fmg_its, cfg.extrapolation != 0);
    double scale = 0, diff = 0;
    for (int i = 0; i < ref.size(); i++) {
        scale = std::max(scale, std::fabs(ref[i]));
        diff  = std::max(diff, std::fabs(ref[i] - start[i]));
    }
    o.mx("startup_rel_diff", scale > 0 ? diff / scale : diff);
    if (diff > 1e-11 * scale) {
        char buf[300];
        snprintf(buf, sizeof buf, "start-up approximation differs from the nested iteration (coarsest solve, interpolate, %d %s-cycles per level, %d levels): max diff %.3e, |u|=%.3e",
                 cfg.fmg_its, cfg.fmg_cycle == 0 ? "V" : (cfg.fmg_cycle == 1 ? "W" : "F"), L, diff, scale);
        o.fail("nested_iteration", buf);
        return o;
    }
    // (iii) a function of the problem data only: a fresh object gives the identical start vector
    if (history != 0) {
        std::unique_ptr<GMGPolar> f = cfg.make();
        f->setup();
        f->solve();
        const Vector<double>& fs = f->solution();
        bool same = fs.size() == start.size();
        double dmax = 0;
        for (int i = 0; same && i < fs.size(); i++)
            dmax = std::max(dmax, std::fabs(fs[i] - start[i]));
        if (!same || dmax > 1e-13 * scale) {
            char buf[200];
            snprintf(buf, sizeof buf, "start-up approximation depends on the object's history (%s): differs from a fresh object by %.3e",
                     history == 1 ? "previous solve of another problem" : (history == 3 ? "previous solve() without setup()" : "old data in the work vectors"), dmax);
            o.fail("history_dependence", buf);
            return o;
        }
        if (dmax == 0)
            o.cls("history_bitwise_equal");
    }
    // (iv) discretisation-level accuracy of the start (>= 1 start-up cycle): compare with the converged solution's error
    if (cfg.fmg_its >= 1 && GMGPolarVerifAccess::exact(*s) != nullptr && cfg.problem != 3 && cfg.grid_kind == 0) {
        const ExactSolution* ex = GMGPolarVerifAccess::exact(*s);
        const PolarGrid& g      = s->grid();
        double estart = 0;
        for (int i = 0; i < g.nr(); i++)
            for (int j = 0; j < g.ntheta(); j++) {
                double t = g.theta(j);
                double u = ex->exact_solution(g.radius(i), t, std::sin(t), std::cos(t));
                estart   = std::max(estart, std::fabs(u - start[g.index(i, j)]));
            }
        SolverCfg conv = cfg;
        conv.max_its   = 60;
        conv.rel_tol   = 1e-10;
        conv.abs_tol   = 1e-12;
        std::unique_ptr<GMGPolar> f = conv.make();
        f->setup();
        f->solve();
        auto einf = f->exactErrorInfinity();
        // The statement's "already has discretisation-level accuracy" is the full-multigrid theorem; its hypothesis is
        // that the start-up cycles reduce the error by more than the factor 4 by which the discretisation error grows
        // from one level to the next coarser one: rho^its < 1/4. Configurations whose measured mean reduction factor
        // does not satisfy it (e.g. the across-origin closure with a hole that is not tiny, rho ~ 0.67) are counted,
        // not judged (DESIGN.md 10.1).
        const double rho = f->meanResidualReductionFactor();
        // One-sided smoothing (0 pre- or 0 post-smoothing steps, drawn since round 9 of the seeded changes) is judged by the
        // equality with the reference nested iteration only: the reduction factor measured on the finest level in the
        // asymptotic regime says little about what V(0,1) cycles do to a freshly interpolated approximation on the coarse
        // levels (observed: start error 91 x discretisation error with rho^its = 0.17; DESIGN.md 10.1).
        const bool two_sided       = cfg.pre >= 1 && cfg.post >= 1;
        const bool theorem_applies = two_sided && einf.has_value() && f->numberOfIterations() < 60 && f->numberOfIterations() >= 2 &&
                                     std::isfinite(rho) && std::pow(rho, cfg.fmg_its) <= 0.2;
        if (!two_sided)
            o.cls("accuracy_not_judged_one_sided_smoothing");
        if (einf.has_value() && f->numberOfIterations() < 60 && !theorem_applies)
            o.cls("accuracy_outside_fmg_theorem");
        if (theorem_applies) {
            o.mx("start_error_over_discretisation_error", estart / std::max(*einf, 1e-300));
            o.cls("accuracy_judged");
            if (estart > 30 * (*einf) + 1e-9) {
                char buf[200];
                snprintf(buf, sizeof buf, "start-up error %.3e is not of the size of the discretisation error %.3e", estart, *einf);
                o.fail("startup_accuracy", buf);
                return o;
            }
        }
    }
    return o;
}

static Outcome runCase(const KV& c)
{
    return c.getS("part") == "interp" ? runInterp(c) : runStartup(c);
}

static KV genCase()
{
    KV c;
    if (rint(0, 2) != 0) {
        c.putS("part", "interp");
        GridOpts go;
        go.nr_min = 9;
        go.nr_max = 41;
        go.nt_min = 8;
        go.nt_max = 64;
        go.coarsenable  = true;
        go.allow_large  = true;
        go.allow_culham = false;
        ProblemSpec p   = genProblem(go);
        if (rbool()) {
            const double R0 = p.radii.front(), Rm = p.radii.back();
            p.radii  = genRadii(p.nr(), rbool() ? 2 : 1, R0, Rm);
            p.angles = genAngles(p.ntheta(), rint(0, 2) == 0 ? 0 : 1);
        }
        p.put(c);
        c.putI("threads", rpick({1, 2, 5, 16}));
        c.putI("coarse_split_mode", rint(0, 1));
        c.putI("coarse_circles", rint(0, (p.nr() + 1) / 2));
        c.putI("level_depth", rweighted({3, 1, 1}));
        c.putI("warm_earlier_pair", rweighted({2, 1}));
        c.putI("x_kind", rweighted({4, 3, 1, 1, 1, 1}));
        c.putU("x_seed", rseed());
        c.putI("vec_scale_exp", rpick({0, 0, 0, 0, 0, 0, -300, -100, 100, 300}));
        c.putU("poly_seed", rseed());
    }
    else {
        c.putS("part", "startup");
        SolverCfg s;
        s.geometry = rint(0, 2);
        s.problem  = rint(0, 2);
        s.alpha    = rint(0, 3);
        s.beta     = rint(0, 1);
        genGeometryParams(s);
        s.R0         = s.Rmax * rpick({1e-5, 1e-3, 1e-2, 0.1});
        s.nr_exp     = rint(3, 5);
        // -1: the automatic angular resolution (coarsest grid 5x8); a fifth of the cases ask for as many or half as many
        // angular intervals as radial ones, whose hierarchies end in a grid with only four angular lines
        s.ntheta_exp = rint(0, 4) == 0 ? (rbool() ? s.nr_exp : std::max(3, s.nr_exp - 1)) : -1;
        s.aniso      = 0;
        s.div        = rint(0, 1);
        s.dirbc      = rbool();
        s.fmg        = 1;
        s.fmg_its    = rint(0, 3);
        s.fmg_cycle  = rint(0, 2);
        s.extrapolation = rweighted({2, 2, 0, 2}); // none, implicit, combined
        s.max_levels = rpick({-1, 2, 2, 3, 4, 5});
        // 0 is an accepted number of smoothing steps (cycles that only post-smooth or only pre-smooth are in common use);
        // no smoothing at all is left to C10/C20
        s.pre  = rint(0, 2);
        s.post = rint(s.pre == 0 ? 1 : 0, 2);
        s.threads    = rpick({1, 2});
        s.strategy   = rint(0, 1);
        if (s.strategy == 1) {
            s.cache_coef = rbool();
            s.cache_geom = rbool();
        }
        s.via_cli = rint(0, 1);
        s.verbose = rweighted({4, 1, 1});
        if (rint(0, 5) == 0) {
            s.grid_kind = rint(1, 5); // a grid loaded from files
            s.div       = 0;
            s.aniso     = 0;
        }
        s.put(c);
        c.putI("history", rint(0, 3));
        c.putI("prev_its", rpick({2, 5, 40}));
        c.putI("prev_fmg", rbool());
        c.putI("prev_extrapolation", rint(0, 1));
        c.putU("pollute_seed", rseed());
    }
    return c;
}

int main(int argc, char** argv)
{
    return harnessMain(argc, argv, "C09 FMG", genCase, runCase);
}
