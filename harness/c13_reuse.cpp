// FLAVOURS: rel asan
// C13: a solver object can be reused - results do not depend on earlier solves.
//   rounds=N; per round k: r<k>_<SolverCfg fields>, r<k>_setup (0/1), r<k>_solves (1..2)
// Model: after every solve() a freshly constructed solver with the cumulative options, setup(); solve().
#include "engine.h"
#include "solver_cfg.h"

static bool setupTimeDiffers(const SolverCfg& a, const SolverCfg& b)
{
    SolverCfg x = a, y = b;
    // options that solve() reads itself
    for (SolverCfg* s : {&x, &y}) {
        s->cycle = s->pre = s->post = 0;
        s->max_its = s->norm = 0;
        s->abs_tol = s->rel_tol = 0;
        s->fmg_its = s->fmg_cycle = 0;
        s->verbose = 0;
    }
    // b describes the last setup(). A hierarchy set up in COMBINED mode holds both level-0 smoothers and the level-1
    // right-hand side, i.e. everything any other extrapolation mode needs, and solve() reads the mode itself: after such a
    // setup() the mode is a solve-time option ("for every extrapolation mode", "option changes ... solve-without-setup").
    // After a setup() in any other mode a part is missing, and changing the mode without setup() is not generated.
    if (b.extrapolation == 3)
        x.extrapolation = y.extrapolation = 0;
    return x.sig() != y.sig();
}

struct SolveStats {
    int its = 0;
    double rho = 0;
    bool hasErr = false;
    double e2 = 0, einf = 0;
    Vector<double> sol;
};

static SolveStats observe(GMGPolar& s, const SolverCfg& cfg)
{
    SolveStats st;
    // every statistic is read after every solve ("statistics reported after a solve describe that solve only" has no
    // exemption for solves without a tolerance or without iterations)
    st.its = s.numberOfIterations();
    st.rho = s.meanResidualReductionFactor();
    (void)cfg;
    {
        auto a = s.exactErrorWeightedEuclidean();
        auto b = s.exactErrorInfinity();
        if (a.has_value() && b.has_value()) {
            st.hasErr = true;
            st.e2     = *a;
            st.einf   = *b;
        }
    }
    st.sol = s.solution();
    return st;
}

static Outcome runCase(const KV& c)
{
    Outcome o;
    StdoutSilencer quiet(true);
    const int rounds = (int)c.getI("rounds");
    std::vector<SolverCfg> cfgs;
    for (int k = 0; k < rounds; k++)
        cfgs.push_back(SolverCfg::get(c, "r" + std::to_string(k) + "_"));
    std::unique_ptr<GMGPolar> s = cfgs[0].make();
    bool haveSetup = false;
    SolverCfg setupCfg;
    int solvesDone = 0;
    bool carrying  = false;
    std::string sig;
    for (int k = 0; k < rounds; k++) {
        const SolverCfg& cfg = cfgs[k];
        bool doSetup         = c.getI("r" + std::to_string(k) + "_setup", 1) != 0;
        const int nsolves    = (int)c.getI("r" + std::to_string(k) + "_solves", 1);
        if (!haveSetup || setupTimeDiffers(cfg, setupCfg))
            doSetup = true; // documented use: structural options need setup()
        if (k > 0 && c.getI("r" + std::to_string(k) + "_reselect", 0)) {
            // a different shipped problem: test-case selection resets the options to the parser's defaults
            cfg.select(*s);
            cfg.applyOptions(*s);
            doSetup = true;
            o.cls("problem_reselected");
        }
        else if (k > 0)
            cfg.applyChanged(*s, cfgs[k - 1]); // only what the user changes between two solves
        try {
            if (doSetup) {
                s->setup();
                haveSetup = true;
                setupCfg  = cfg;
            }
        }
        catch (const std::exception&) {
            if (c.getI("r" + std::to_string(k) + "_poison", 0)) {
                // the three generated rejections are raised before setup() touches the hierarchy: the object still holds
                // the hierarchy of the last successful setup(), and after the offending option is restored a solve()
                // without another setup() is as legitimate as before the rejected call
                o.cls("rejected_round_then_reused");
            }
            else {
                o.cls("rejected_by_exception");
                haveSetup = false;
            }
            continue;
        }
        if (k > 0 && !doSetup)
            o.cls("options_changed_without_setup");
        if (k > 0 && !doSetup && cfg.extrapolation != setupCfg.extrapolation)
            o.cls("extrapolation_mode_changed_without_setup");
        if (k > 0) {
            const SolverCfg& pv = cfgs[k - 1];
            if (pv.cycle != cfg.cycle && !doSetup) o.cls("changed_cycle_without_setup");
            if (pv.dirbc != cfg.dirbc) o.cls("changed_dirbc");
            if (pv.threads != cfg.threads || pv.reduction != cfg.reduction) o.cls("changed_threads");
            if (pv.R0 != cfg.R0 || pv.aniso != cfg.aniso || pv.div != cfg.div || pv.nr_exp != cfg.nr_exp) o.cls("changed_grid");
            if (pv.cache_coef != cfg.cache_coef || pv.cache_geom != cfg.cache_geom || pv.strategy != cfg.strategy) o.cls("changed_strategy_or_caches");
        }
        sig += (doSetup ? "S" : "s") + std::to_string(cfg.extrapolation) + std::to_string(cfg.fmg) + std::to_string(cfg.nr_exp + cfg.div);
        for (int q = 0; q < nsolves; q++) {
            s->solve();
            SolveStats a = observe(*s, cfg);
            solvesDone++;
            sig += "x";
            if (solvesDone >= 2 && (cfg.extrapolation == 3 || cfg.fmg || (k > 0 && cfgs[k].nr_exp != cfgs[k - 1].nr_exp)))
                carrying = true;
            // model
            std::unique_ptr<GMGPolar> f = cfg.make();
            f->setup();
            f->solve();
            SolveStats b = observe(*f, cfg);
            char where[96];
            snprintf(where, sizeof where, "round %d solve %d (%s setup, extrapolation %d, FMG %d, %ldx?)", k, q, doSetup && q == 0 ? "after" : "without",
                     cfg.extrapolation, cfg.fmg, cfg.nrFine());
            if (a.its != b.its) {
                o.fail("iterations", std::string(where) + ": reused object took " + std::to_string(a.its) + " iterations, a fresh object " +
                                         std::to_string(b.its));
                return o;
            }
            if (a.sol.size() != b.sol.size()) {
                o.fail("solution_size", std::string(where) + ": solution sizes differ");
                return o;
            }
            if (std::memcmp(a.sol.begin(), b.sol.begin(), sizeof(double) * a.sol.size()) != 0) {
                double d = 0, sc = 0;
                for (int i = 0; i < a.sol.size(); i++) {
                    d  = std::max(d, std::fabs(a.sol[i] - b.sol[i]));
                    sc = std::max(sc, std::fabs(b.sol[i]));
                }
                o.mx("solution_rel_diff", d / sc);
                char buf[200];
                snprintf(buf, sizeof buf, "%s: solution differs from a fresh object's by %.3e (|u|=%.3e)", where, d, sc);
                o.fail("solution", buf);
                return o;
            }
            if (std::memcmp(&a.rho, &b.rho, 8) != 0) {
                char buf[200];
                snprintf(buf, sizeof buf, "%s: mean reduction factor %.17g vs fresh %.17g", where, a.rho, b.rho);
                o.fail("reduction_factor", buf);
                return o;
            }
            if (a.hasErr != b.hasErr || (a.hasErr && (a.e2 != b.e2 || a.einf != b.einf))) {
                char buf[240];
                snprintf(buf, sizeof buf, "%s: exact errors (%.17g, %.17g) vs fresh (%.17g, %.17g)", where, a.e2, a.einf, b.e2, b.einf);
                o.fail("exact_errors", buf);
                return o;
            }
        }
    }
    o.nontrivial = solvesDone >= 2 && carrying;
    o.signature  = sig + cfgs[0].sig();
    o.cls("solves_" + std::to_string(std::min(solvesDone, 6)));
    if (carrying)
        o.cls("state_carrying_feature");
    if (sig.find("s") != std::string::npos || sig.find("xx") != std::string::npos)
        o.cls("solve_without_setup");
    return o;
}

static KV genCase()
{
    KV c;
    const int rounds = rint(2, 4);
    c.putI("rounds", rounds);
    SolverCfg s;
    s.geometry = rint(0, 2);
    s.problem  = rint(0, 2);
    s.alpha    = rint(0, 3);
    s.beta     = rint(0, 1);
    genGeometryParams(s);
    s.R0         = s.Rmax * rpick({1e-5, 1e-3, 1e-2});
    s.nr_exp     = rint(3, 5);
    s.ntheta_exp = -1;
    s.aniso      = 0;
    s.div        = 0;
    s.dirbc      = rbool();
    s.threads    = rpick({1, 2});
    s.strategy   = rint(0, 1);
    s.via_cli    = rint(0, 1); // how the first configuration reaches the object (later changes go through the setters)
    const bool pattern = rint(0, 3) == 0; // the convergence_order loop: only divideBy2 changes
    for (int k = 0; k < rounds; k++) {
        if (k > 0 && k + 1 < rounds && rint(0, 7) == 0) {
            // a round that setup() must reject (an exception), on the same object; the following round uses valid options
            // again and must behave like a fresh object: a rejected call leaves nothing behind
            SolverCfg bad = s;
            switch (rint(0, 2)) {
            case 0:
                bad.strategy   = 0;
                bad.cache_geom = 0; // take needs both caches
                break;
            case 1:
                bad.max_levels = 1; // fewer than two levels
                break;
            default:
                bad.nr_exp = 1; // too coarse for two levels
                bad.div    = 0;
                bad.aniso  = 0;
                break;
            }
            bad.put(c, "r" + std::to_string(k) + "_");
            c.putI("r" + std::to_string(k) + "_setup", 1);
            c.putI("r" + std::to_string(k) + "_solves", 0);
            c.putI("r" + std::to_string(k) + "_poison", 1);
            continue;
        }
        if (k > 0 && !pattern && rint(0, s.extrapolation == 3 ? 1 : 2) == 0) {
            // only options that solve() reads itself change (one to three of them), and setup() is NOT called again:
            // the next solve must behave like a fresh object that was given the new values before its setup()
            const int nchg = rint(1, 3);
            if (s.extrapolation == 3 && rint(0, 2) != 0) {
                // another extrapolation mode on a hierarchy that was (most likely) set up in COMBINED mode; runCase calls
                // setup() anyway if it was not
                s.extrapolation = rint(0, 2);
                c.putI("r" + std::to_string(k) + "_mode_changed_without_setup", 1);
            }
            for (int q = 0; q < nchg; q++)
                switch (rint(0, 7)) {
                case 0:
                case 1:
                    s.cycle = (s.cycle + rint(1, 2)) % 3;
                    break;
                case 2:
                    s.pre = 3 - s.pre;
                    break;
                case 3:
                    s.post = 3 - s.post;
                    break;
                case 4:
                    s.max_its = rpick({150, 3, 7, 1, 0});
                    break;
                case 5:
                    s.norm = (s.norm + rint(1, 2)) % 3;
                    break;
                case 6:
                    s.rel_tol = rpick({1e-6, 1e-8, 1e-10, -1.0});
                    s.abs_tol = rpick({-1.0, 1e-8, 1e-12});
                    if (s.rel_tol < 0 && s.abs_tol < 0 && s.max_its > 7)
                        s.max_its = 3;
                    break;
                default:
                    s.fmg_its   = rint(0, 2);
                    s.fmg_cycle = rint(0, 2);
                    break;
                }
            s.put(c, "r" + std::to_string(k) + "_");
            c.putI("r" + std::to_string(k) + "_setup", 0);
            c.putI("r" + std::to_string(k) + "_solves", rweighted({0, 3, 1}));
            c.putI("r" + std::to_string(k) + "_solve_time_only", 1);
            continue;
        }
        if (k == 0 || !pattern) {
            // (re)draw a handful of options, always including the state-carrying ones
            s.extrapolation = rweighted({2, 2, 1, 4});
            s.fmg           = rbool();
            s.fmg_its       = rint(0, 2);
            s.fmg_cycle     = rint(0, 2);
            s.cycle         = rint(0, 2);
            s.pre           = rint(0, 2); // 0 steps on one side is accepted (no smoothing at all: C10/C20)
            s.post          = rint(s.pre == 0 ? 1 : 0, 2);
            s.max_levels    = rpick({-1, -1, 2, 3});
            s.max_its       = rpick({150, 150, 150, 3, 7, 0});
            s.norm          = rint(0, 2);
            s.rel_tol       = rpick({1e-6, 1e-8, 1e-10});
            s.abs_tol       = rpick({-1.0, 1e-8, 1e-12});
            if (rint(0, 5) == 0) { // a solve that monitors nothing: both tolerances disabled, a few cycles
                s.rel_tol = s.abs_tol = -1.0;
                s.max_its = rpick({0, 2, 4});
            }
            if (k > 0 && rint(0, 1) == 0)
                s.nr_exp = rint(3, 5);
            if (k > 0 && rint(0, 3) == 0)
                s.strategy = rint(0, 1);
            // "a different problem size or option set": every other public option may change between two rounds as well
            if (k > 0) {
                if (rint(0, 3) == 0)
                    s.dirbc = rbool();
                if (rint(0, 3) == 0)
                    s.verbose = rweighted({2, 1, 1});
                if (rint(0, 7) == 0)
                    s.grid_kind = rint(0, 5); // a grid loaded from files (or back to the parametric one)
                if (rint(0, 3) == 0)
                    s.threads = rpick({1, 2}); // more threads: reductions are combined in arrival order, not bit-reproducible
                if (rint(0, 3) == 0)
                    s.reduction = rpick({1.0, 0.5, 0.3});
                if (rint(0, 5) == 0)
                    s.R0 = s.Rmax * rpick({1e-5, 1e-3, 1e-2, 0.1});
                if (rint(0, 5) == 0)
                    s.aniso = rint(0, 1);
                if (rint(0, 5) == 0)
                    s.div = rint(0, 1);
                if (rint(0, 4) == 0) {
                    // setParameters() again on the same object, then the options: another shipped test problem, or
                    // (half of the time) the SAME selection tuple with another outer radius only - the input functions
                    // depend on Rmax too
                    if (rbool()) {
                        s.geometry = rint(0, 2);
                        s.problem  = rint(0, 2);
                        s.alpha    = rint(0, 3);
                        s.beta     = rint(0, 1);
                        genGeometryParams(s);
                    }
                    else {
                        const double old = s.Rmax;
                        s.Rmax           = old == 1.3 ? rpick({1.0, 2.0}) : 1.3;
                        if (s.aniso)
                            s.alpha_jump *= s.Rmax / old; // keeps the refined region inside the domain
                    }
                    s.R0 = s.Rmax * rpick({1e-5, 1e-3, 1e-2});
                    c.putI("r" + std::to_string(k) + "_reselect", 1);
                }
            }
            if (s.strategy == 1 && k > 0 && rint(0, 2) == 0) {
                s.cache_coef = rbool();
                s.cache_geom = rbool();
            }
            if (s.strategy == 0)
                s.cache_coef = s.cache_geom = 1;
        }
        else
            s.div = std::min(2, k);
        s.put(c, "r" + std::to_string(k) + "_");
        c.putI("r" + std::to_string(k) + "_setup", k == 0 ? 1 : rint(0, 1));
        c.putI("r" + std::to_string(k) + "_solves", rweighted({0, 3, 1}));
    }
    return c;
}

int main(int argc, char** argv)
{
    return harnessMain(argc, argv, "C13 solver reuse", genCase, runCase);
}
