// FLAVOURS: rel
// C02: second-order accuracy; implicit extrapolation raises the order.
//   SolverCfg (triple, parameters, BC, strategy, caches, R0, nr_exp, div = k of the refinement pair k -> k+1), include_known
#include "engine.h"
#include "indep.h"

struct Err {
    bool ok = false;
    double e2 = 0, einf = 0, umax = 0;
    int its = 0, nr = 0, nt = 0;
};

static Err solveOne(SolverCfg cfg, int div, int extrapolation, std::string& why)
{
    Err r;
    cfg.div           = div;
    cfg.extrapolation = extrapolation;
    cfg.fmg           = 1;
    cfg.fmg_its       = 2;
    cfg.fmg_cycle     = 2;
    cfg.cycle         = 2; // F-cycles
    cfg.pre = cfg.post = 1;
    cfg.max_its = 100;
    cfg.rel_tol = 1e-11;
    cfg.abs_tol = 1e-13;
    cfg.norm    = 1;
    std::unique_ptr<GMGPolar> s = cfg.make();
    s->setup();
    s->solve();
    r.its = s->numberOfIterations();
    r.nr  = s->grid().nr();
    r.nt  = s->grid().ntheta();
    if (r.its >= cfg.max_its) {
        why = "algebraic solve did not reach the tolerance";
        return r;
    }
    // the API's error figures refer to the iterate before the last cycle; recompute from solution() with fresh functions
    IndepProblem ip(cfg);
    const PolarGrid& g      = s->grid();
    const Vector<double>& u = s->solution();
    LD s2 = 0, sinf = 0, um = 0;
    for (int i = 0; i < g.nr(); i++)
        for (int j = 0; j < g.ntheta(); j++) {
            const double t = g.theta(j);
            const LD ex    = ip.ex->exact_solution(g.radius(i), t, std::sin(t), std::cos(t));
            const LD d     = ex - (LD)u[g.index(i, j)];
            s2 += d * d;
            sinf = std::max(sinf, fabsl(d));
            um   = std::max(um, fabsl(ex));
        }
    r.e2   = (double)(sqrtl(s2) / sqrtl((LD)g.numberOfNodes()));
    r.einf = (double)sinf;
    r.umax = (double)um;
    // cross-check with the API's own figures (they describe the previous iterate: agree to the algebraic accuracy)
    auto a2 = s->exactErrorWeightedEuclidean();
    auto ai = s->exactErrorInfinity();
    if (a2.has_value() && ai.has_value()) {
        if (std::fabs(*a2 - r.e2) > 1e-3 * r.e2 + 1e-12 || std::fabs(*ai - r.einf) > 1e-3 * r.einf + 1e-12) {
            why = "API error figures differ from the recomputed ones: algebraic error not negligible";
            return r;
        }
    }
    r.ok = true;
    return r;
}

static Outcome runCase(const KV& c)
{
    Outcome o;
    SolverCfg cfg = SolverCfg::get(c);
    const int k   = cfg.div;
    const bool includeKnown = c.getI("include_known", 0) != 0;
    char tup[40];
    snprintf(tup, sizeof tup, "g%dp%da%db%d", cfg.geometry, cfg.problem, cfg.alpha, cfg.beta);
    o.signature = std::string(tup) + "D" + std::to_string(cfg.dirbc) + "s" + std::to_string(cfg.strategy) + std::to_string(cfg.cache_coef) +
                  std::to_string(cfg.cache_geom) + "k" + std::to_string(k) + "n" + std::to_string(cfg.nr_exp) + "R" +
                  std::to_string((int)std::floor(-std::log10(cfg.R0 / cfg.Rmax)));
    o.cls(std::string("problem_") + std::to_string(cfg.problem));
    o.cls(std::string("geometry_") + std::to_string(cfg.geometry));
    o.cls(cfg.dirbc ? "dirbc" : "across_origin");
    o.cls(cfg.aniso ? "anisotropic_base_grid" : "uniform_base_grid");
    if (cfg.grid_kind == 6)
        o.cls("grids_written_to_files_and_loaded_back");
    const std::string an = cfg.aniso ? "aniso_" : "";
    const bool twoLevelSmall = cfg.max_levels == 2;
    if (twoLevelSmall)
        o.cls("two_levels_small_grids");
    Err e[2][2];
    for (int ex = 0; ex < 2; ex++)
        for (int d = 0; d < 2; d++) {
            std::string why;
            e[ex][d] = solveOne(cfg, k + d, ex, why);
            if (!e[ex][d].ok) {
                o.inconclusive = true;
                o.cls(why.find("did not reach") != std::string::npos ? "inconclusive_stop_test_missed" : "inconclusive_algebraic_error");
                return o;
            }
        }
    const Err& fin = e[0][1];
    o.nontrivial   = (fin.nr >= 65 && fin.nt >= 128) || twoLevelSmall;
    o.cls("finest_" + std::to_string(fin.nr) + "x" + std::to_string(fin.nt));
    // floor guard: rounding floor of the discrete solve ~ eps * kappa; across-origin rows scale like 1/R0
    // (errors of the sizes met here, >= 1e-8, are far above the rounding level of the solves; see DESIGN.md C02)
    const double floorErr = 1e-9 * fin.umax;
    static const char* nn[2] = {"weighted l2", "max"};
    for (int ex = 0; ex < 2; ex++) {
        for (int norm = 0; norm < 2; norm++) {
            const double ec = norm == 0 ? e[ex][0].e2 : e[ex][0].einf, ef = norm == 0 ? e[ex][1].e2 : e[ex][1].einf;
            if (!(ec < 0.1 * fin.umax)) {
                o.inconclusive = true;
                o.cls("inconclusive_unresolved");
                continue;
            }
            if (ef < floorErr) {
                o.inconclusive = true;
                o.cls("inconclusive_rounding_floor");
                continue;
            }
            const double p = std::log2(ec / ef);
            if (twoLevelSmall) {
                // pre-asymptotic pair (33 -> 65 radial nodes, exactly two levels): judged in the weighted l2 norm and by "the
                // extrapolated solution is the more accurate one" below; the max-norm orders are recorded only
                o.mx(std::string(ex ? "twolevel_neg_order_extrapolated_" : "twolevel_neg_order_plain_") + (norm ? "max" : "l2"), -p);
                if (norm == 1)
                    continue; // the max norm is pre-asymptotic on this pair (2.8-2.9 observed); the l2 order is judged
            }
            o.mx(an + std::string(ex ? "neg_order_extrapolated_" : "neg_order_plain_") + (norm ? "max" : "l2"), -p);
            char buf[300];
            snprintf(buf, sizeof buf, "%s, %s norm: errors %.4e (%dx%d) -> %.4e (%dx%d), observed order %.3f", ex ? "implicit extrapolation" : "no extrapolation",
                     nn[norm], ec, e[ex][0].nr, e[ex][0].nt, ef, e[ex][1].nr, e[ex][1].nt, p);
            if (!ex) {
                if (p < 1.8) {
                    o.fail("order_plain", std::string(buf) + " < 1.8");
                    return o;
                }
            }
            else {
                // known finding F12: CartesianR6, max norm, asymptotic order exactly three with extrapolation
                const bool f12 = cfg.problem == 1 && norm == 1 && p >= 2.9 && p <= 3.0;
                if (f12 && !includeKnown) {
                    o.cnt("excluded_known_F12");
                    continue;
                }
                // known finding F22: on an anisotropic base grid (mesh width jumps by a factor of two at the refined
                // region) the max-norm order with extrapolation is 2.8-3.0; the l2 order stays above 3.4
                const bool f22 = !f12 && cfg.aniso >= 1 && norm == 1 && p >= 2.6 && p <= 3.0;
                if (f22 && !includeKnown) {
                    o.cnt("excluded_known_F22");
                    continue;
                }
                if (!(p > 3.0)) {
                    o.fail(f12 ? "order_extrapolated_F12" : (f22 ? "order_extrapolated_F22" : "order_extrapolated"),
                           std::string(buf) + " is not better than third order");
                    return o;
                }
            }
        }
    }
    // on the finest grid the extrapolated solution is more accurate once the mesh resolves the solution
    for (int norm = 0; norm < 2; norm++) {
        const double ep = norm == 0 ? e[0][1].e2 : e[0][1].einf, ee = norm == 0 ? e[1][1].e2 : e[1][1].einf;
        if (ee < floorErr)
            continue;
        o.mx(std::string("extrapolated_over_plain_error_") + (norm ? "max" : "l2"), ee / ep);
        if (!(ee < ep)) {
            char buf[200];
            snprintf(buf, sizeof buf, "%s norm on %dx%d: extrapolated error %.4e is not below the plain error %.4e", nn[norm], fin.nr, fin.nt, ee, ep);
            o.fail("extrapolation_not_better", buf);
            return o;
        }
    }
    return o;
}

static KV genCase()
{
    KV c;
    SolverCfg s;
    s.geometry = rint(0, 2);
    s.problem  = rint(0, 2);
    s.alpha    = rint(0, 3);
    s.beta     = rint(0, 1);
    // shipped shape parameters (the property quantifies over the shipped problems)
    // ... and --Rmax is one of their parameters: exact solutions, profiles and mappings all take it (1.3 is the default)
    s.Rmax = rpick({1.3, 1.3, 1.3, 1.0, 2.0});
    if (s.geometry == 1) {
        s.kappa_eps = 0.3;
        s.delta_e   = 0.2;
    }
    else if (s.geometry == 2) {
        s.kappa_eps = 0.3;
        s.delta_e   = 1.4;
    }
    static const double jumps[4] = {0.5, 0.66, 0.4837, 0.7081};
    s.alpha_jump = jumps[s.alpha] * s.Rmax;
    s.dirbc      = rbool();
    s.strategy   = rint(0, 1);
    if (s.strategy == 1) {
        s.cache_coef = rbool();
        s.cache_geom = rbool();
    }
    // The across-origin closure replaces the hole of radius R0 by a stencil through the origin: it is consistent with
    // the problem on the full disk only for R0 -> 0 (an O(R0)-dependent modelling error otherwise masks the
    // discretisation order), so it is judged with the small R0 it is meant for; a Dirichlet interior boundary is exact.
    s.R0 = s.dirbc ? s.Rmax * rpick({1e-5, 1e-3, 1e-2, 0.1, 0.3, 0.5}) : s.Rmax * rpick({1e-5, 1e-6, 1e-8}); // incl. annuli (few, clamped smoother circles)
    s.nr_exp     = 4;
    s.ntheta_exp = -1;
    // "uniform refinement" is divideBy2 applied to the base grid; the base grid itself may be anisotropic (refined by
    // anisotropic_factor around the profile's steep region): a third of the cases
    s.aniso = rweighted({2, 1});
    if (s.R0 >= 0.25 * s.Rmax)
        s.aniso = 0; // the refined window around the profile's steep region does not fit into a thick annulus
    const char* t = getenv("VERIF_TIER");
    const bool thorough = t && std::string(t) == "thorough";
    // refinement pair k -> k+1; finest 129x256 (quick) or 257x512 (thorough; across-origin with tiny R0 stays at 129)
    s.div = thorough ? (!s.dirbc ? 2 : rint(2, 3)) : 2;
    s.threads = 2;
    if (rint(0, 5) == 0) {
        // exactly two levels (the direct solver is the coarse level of the extrapolated cycle): affordable only on small
        // grids, 33x64 -> 65x128 with the coarse solve on 17x32 / 33x64
        s.max_levels = 2;
        s.aniso      = 0;
        s.div        = 1;
    }
    s.via_cli = rint(0, 1);
    // a sixth of the chains run the write-then-load workflow: every grid of the chain is written to files and loaded back
    // (load_grid_file) by a solver whose generator options, R0 included, are left at their defaults
    if (rint(0, 5) == 0)
        s.grid_kind = 6;
    s.put(c);
    return c;
}

int main(int argc, char** argv)
{
    return harnessMain(argc, argv, "C02 convergence order", genCase, runCase);
}
