// FLAVOURS: rel asan
// C07: extrapolated smoothing relaxes fine-only nodes and never moves coarse nodes.
#include "smoother_case.h"
int main(int argc, char** argv)
{
    return harnessMain(argc, argv, "C07 extrapolated smoother", [] { return genSmootherCase(true); },
                       [](const KV& c) { return runSmootherCase(c, true); });
}
